//! host: src/constant_time.rs
//! Harness module appended (cfg(kani)) as a child of `constant_time`; sees the module's private items.
//! Contracts are the C18 statement: each helper returns the ordinary answer, for all operands.
use super::*;

fn any_choice() -> Choice {
    let b: bool = kani::any();
    Choice(b as u64)
}

// @harness props=C18 kind=full tier=quick pairs=implCtZeroforu64/ct_zero,implCtZeroforu64/ct_nonzero
#[kani::proof]
fn ct_u64_zero_nonzero() {
    let x: u64 = kani::any();
    let z = x.ct_zero();
    let nz = x.ct_nonzero();
    assert!(z.0 <= 1 && nz.0 <= 1);
    assert!(z.is_true() == (x == 0));
    assert!(z.is_false() == (x != 0));
    assert!(nz.is_true() == (x != 0));
    kani::cover!(true);
}

// @harness props=C18 kind=full tier=quick pairs=implCtEqualforu64/ct_eq,implCtEqualforu64/ct_ne
#[kani::proof]
fn ct_u64_eq_ne() {
    let a: u64 = kani::any();
    let b: u64 = kani::any();
    assert!(a.ct_eq(b).is_true() == (a == b));
    assert!(a.ct_ne(b).is_true() == (a != b));
    assert!(a.ct_eq(b).0 <= 1 && a.ct_ne(b).0 <= 1);
    kani::cover!(true);
}

// @harness props=C18 kind=full tier=quick pairs=implCtLesserforu64/ct_lt,implCtGreaterforu64/ct_gt
#[kani::proof]
fn ct_u64_lt_gt() {
    let a: u64 = kani::any();
    let b: u64 = kani::any();
    assert!(u64::ct_lt(a, b).is_true() == (a < b));
    assert!(u64::ct_gt(a, b).is_true() == (a > b));
    assert!(u64::ct_lt(a, b).0 <= 1 && u64::ct_gt(a, b).0 <= 1);
    kani::cover!(true);
}

// @harness props=C18 kind=full tier=quick pairs=ct_le
#[kani::proof]
fn ct_u64_le() {
    let a: u64 = kani::any();
    let b: u64 = kani::any();
    assert!(u64::ct_le(a, b).is_true() == (a <= b));
    kani::cover!(true);
}

// @harness props=C18 kind=full tier=quick pairs=ct_ge
#[kani::proof]
fn ct_u64_ge() {
    let a: u64 = kani::any();
    let b: u64 = kani::any();
    assert!(u64::ct_ge(a, b).is_true() == (a >= b));
    kani::cover!(true);
}

// @harness props=C18 kind=full tier=quick pairs=foru8/ct_
#[kani::proof]
fn ct_u8_all() {
    let a: u8 = kani::any();
    let b: u8 = kani::any();
    assert!(a.ct_zero().is_true() == (a == 0));
    assert!(a.ct_nonzero().is_true() == (a != 0));
    assert!(a.ct_eq(b).is_true() == (a == b));
    assert!(a.ct_ne(b).is_true() == (a != b));
    kani::cover!(true);
}

// @harness props=C18 kind=full tier=quick pairs=implChoice/,forChoice/,CtOption<T>/
#[kani::proof]
fn ct_choice_algebra() {
    let a = any_choice();
    let b = any_choice();
    let (ta, tb) = (a.is_true(), b.is_true());
    assert!((a & b).is_true() == (ta && tb));
    assert!((a | b).is_true() == (ta || tb));
    assert!((a ^ b).is_true() == (ta != tb));
    assert!(a.negate().is_true() == !ta);
    assert!(a.is_false() == !ta);
    assert!((a & b).0 <= 1 && (a | b).0 <= 1 && (a ^ b).0 <= 1 && a.negate().0 <= 1);
    let as_bool: bool = a.into();
    assert!(as_bool == ta);
    let v: u32 = kani::any();
    let o: CtOption<u32> = (a, v).into();
    assert!(o.into_option() == if ta { Some(v) } else { None });
    kani::cover!(true);
}

// The masked writers are `iter_mut` loops (outside Verus' functional reach): complete proofs at the two
// instantiations that exist in the crate (fe64: [u64; 5], fe32: [i32; 10]), all limb values, both choices.
// @harness props=C18,C12 kind=full tier=quick unwind=7
#[kani::proof]
#[kani::unwind(7)]
fn ct_array64_swap_n5() {
    let a0: [u64; 5] = kani::any();
    let b0: [u64; 5] = kani::any();
    let c = any_choice();
    let (mut a, mut b) = (a0, b0);
    ct_array64_maybe_swap_with(&mut a, &mut b, c);
    let mut i = 0;
    while i < 5 {
        if c.is_true() {
            assert!(a[i] == b0[i] && b[i] == a0[i]);
        } else {
            assert!(a[i] == a0[i] && b[i] == b0[i]);
        }
        i += 1;
    }
    kani::cover!(true);
}

// @harness props=C18 kind=full tier=quick unwind=7
#[kani::proof]
#[kani::unwind(7)]
fn ct_array64_set_n5() {
    let a0: [u64; 5] = kani::any();
    let b0: [u64; 5] = kani::any();
    let c = any_choice();
    let mut a = a0;
    ct_array64_maybe_set(&mut a, &b0, c);
    let mut i = 0;
    while i < 5 {
        if c.is_true() {
            assert!(a[i] == b0[i]);
        } else {
            assert!(a[i] == a0[i]);
        }
        i += 1;
    }
    kani::cover!(true);
}

// @harness props=C18 kind=full tier=quick unwind=12
#[kani::proof]
#[kani::unwind(12)]
fn ct_array32_swap_n10() {
    let a0: [i32; 10] = kani::any();
    let b0: [i32; 10] = kani::any();
    let c = any_choice();
    let (mut a, mut b) = (a0, b0);
    ct_array32_maybe_swap_with(&mut a, &mut b, c);
    let mut i = 0;
    while i < 10 {
        if c.is_true() {
            assert!(a[i] == b0[i] && b[i] == a0[i]);
        } else {
            assert!(a[i] == a0[i] && b[i] == b0[i]);
        }
        i += 1;
    }
    kani::cover!(true);
}

// @harness props=C18 kind=full tier=quick unwind=12
#[kani::proof]
#[kani::unwind(12)]
fn ct_array32_set_n10() {
    let a0: [i32; 10] = kani::any();
    let b0: [i32; 10] = kani::any();
    let c = any_choice();
    let mut a = a0;
    ct_array32_maybe_set(&mut a, &b0, c);
    let mut i = 0;
    while i < 10 {
        if c.is_true() {
            assert!(a[i] == b0[i]);
        } else {
            assert!(a[i] == a0[i]);
        }
        i += 1;
    }
    kani::cover!(true);
}

// byte arrays as big-endian numbers: complete for N = 8 (value comparison through u64), witness source for the
// generic-N Verus proof
// @harness props=C18 kind=bounded bound=N=8 tier=quick unwind=10 pairs=CtLesserfor&[u8;N]/ct_lt
#[kani::proof]
#[kani::unwind(10)]
fn ct_bytes_lt_n8() {
    let a: [u8; 8] = kani::any();
    let b: [u8; 8] = kani::any();
    let r = <&[u8; 8]>::ct_lt(&a, &b);
    assert!(r.is_true() == (u64::from_be_bytes(a) < u64::from_be_bytes(b)));
    assert!(r.0 <= 1);
    kani::cover!(true);
}

// @harness props=C18 kind=bounded bound=N=8 tier=quick unwind=10
#[kani::proof]
#[kani::unwind(10)]
fn ct_bytes_ge_n8() {
    let a: [u8; 8] = kani::any();
    let b: [u8; 8] = kani::any();
    let r = <&[u8; 8]>::ct_ge(&a, &b);
    assert!(r.is_true() == (u64::from_be_bytes(a) >= u64::from_be_bytes(b)));
    kani::cover!(true);
}

// @harness props=C18 kind=bounded bound=N=8 tier=quick unwind=10 pairs=for&[u8;N]/ct_eq,for&[u8;N]/ct_ne,for&[u8;N]/ct_zero,for&[u8;N]/ct_nonzero,for&[u8]/ct_eq
#[kani::proof]
#[kani::unwind(10)]
fn ct_bytes_eq_zero_n8() {
    let a: [u8; 8] = kani::any();
    let b: [u8; 8] = kani::any();
    assert!((&a).ct_eq(&b).is_true() == (a == b));
    assert!((&a).ct_ne(&b).is_true() == (a != b));
    assert!((&a).ct_zero().is_true() == (u64::from_be_bytes(a) == 0));
    assert!((&a).ct_nonzero().is_true() == (u64::from_be_bytes(a) != 0));
    let s: &[u8] = &a[..];
    let t: &[u8] = &b[..];
    assert!(s.ct_eq(t).is_true() == (a == b));
    kani::cover!(true);
}
