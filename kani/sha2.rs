//! host: src/hashing/sha2/mod.rs
//! C01 / C02 for the SHA-2 contexts above the compression function: with `digest_block` replaced by a recorder, the bytes
//! handed to it for a message m are exactly the FIPS 180-4 padded message m | 0x80 | 0^k | be(8*|m|) (64-bit length for the
//! 256 family, 128-bit for the 512 family), and every split / clone / reset history hands it the same bytes.  The digest is
//! a function of that trace, the (constant) IV and the compression function only, so equal traces give equal digests for
//! any compression function.  Bounded in message length (concrete lengths at the padding boundaries), symbolic content.
use super::*;

const TMAX: usize = 384;
static mut TRACE: [u8; TMAX] = [0; TMAX];
static mut TLEN: usize = 0;
fn rec256(_state: &mut [u32; 8], block: &[u8]) {
    unsafe {
        let mut i = 0;
        while i < block.len() {
            TRACE[TLEN] = block[i];
            TLEN += 1;
            i += 1;
        }
    }
}
fn rec512(_state: &mut [u64; 8], block: &[u8]) {
    unsafe {
        let mut i = 0;
        while i < block.len() {
            TRACE[TLEN] = block[i];
            TLEN += 1;
            i += 1;
        }
    }
}
fn take() -> ([u8; TMAX], usize) {
    unsafe {
        let r = (TRACE, TLEN);
        TLEN = 0;
        r
    }
}
/// byte k of the FIPS 180-4 padding of a message of length n (block size bs, length field lf bytes, big-endian bit count)
fn md_pad_byte(msg: &[u8], bs: usize, lf: usize, k: usize) -> u8 {
    let n = msg.len();
    let total = (n + 1 + lf + bs - 1) / bs * bs;
    if k < n {
        msg[k]
    } else if k == n {
        0x80
    } else if k < total - 8 {
        0
    } else {
        (((n as u64) * 8) >> (8 * (total - 1 - k))) as u8
    }
}
fn check_trace(msg: &[u8], bs: usize, lf: usize) { check_trace_from(msg, bs, lf, 0) }
/// the trace since the last `take()` is the padded message from byte `skip` on (`skip` = the whole blocks that a context had
/// already compressed, and the recorder had already been emptied of, when it was cloned)
fn check_trace_from(msg: &[u8], bs: usize, lf: usize, skip: usize) {
    let (t, n) = take();
    let total = (msg.len() + 1 + lf + bs - 1) / bs * bs;
    assert!(n == total - skip, "number of bytes compressed");
    let mut k = 0;
    while k < total - skip {
        assert!(t[k] == md_pad_byte(msg, bs, lf, skip + k), "padded message byte");
        k += 1;
    }
}
fn sha256_case<const N: usize>(cut: usize) {
    let m: [u8; N] = kani::any();
    let _ = Context256::new().update(&m).finalize();
    check_trace(&m, 64, 8);
    // split, with an empty piece and a clone taken mid-stream; reuse after finalize_reset
    let mut c = Context256::new();
    c.update_mut(&m[..cut]);
    c.update_mut(&m[..0]);
    let d = c.clone();
    c.update_mut(&m[cut..]);
    let _ = c.finalize_reset();
    check_trace(&m, 64, 8);
    c.update_mut(&m);
    let _ = c.finalize();
    check_trace(&m, 64, 8);
    let _ = d.update(&m[cut..]).finalize();
    check_trace_from(&m, 64, 8, cut / 64 * 64);
    kani::cover!(true);
}
fn sha512_case<const N: usize>(cut: usize) {
    let m: [u8; N] = kani::any();
    let _ = Context512::new().update(&m).finalize();
    check_trace(&m, 128, 16);
    let mut c = Context512::new();
    c.update_mut(&m[..cut]);
    let d = c.clone();
    c.update_mut(&m[cut..]);
    let _ = c.finalize_reset();
    check_trace(&m, 128, 16);
    c.update_mut(&m);
    let _ = c.finalize();
    check_trace(&m, 128, 16);
    let _ = d.update(&m[cut..]).finalize();
    check_trace_from(&m, 128, 16, cut / 128 * 128);
    kani::cover!(true);
}
// @harness props=C01,C02 kind=bounded bound=len=0 tier=quick timeout=600
#[kani::proof]
#[kani::stub(impl256::digest_block, rec256)]
#[kani::unwind(200)]
fn sha256_trace_len0() { sha256_case::<0>(0) }
// @harness props=C01,C02 kind=bounded bound=len=55,cut=1 tier=quick timeout=600
#[kani::proof]
#[kani::stub(impl256::digest_block, rec256)]
#[kani::unwind(200)]
fn sha256_trace_len55() { sha256_case::<55>(1) }
// @harness props=C01,C02 kind=bounded bound=len=56,cut=55 tier=quick timeout=600
#[kani::proof]
#[kani::stub(impl256::digest_block, rec256)]
#[kani::unwind(200)]
fn sha256_trace_len56() { sha256_case::<56>(55) }
// @harness props=C01,C02 kind=bounded bound=len=64,cut=63 tier=quick timeout=600
#[kani::proof]
#[kani::stub(impl256::digest_block, rec256)]
#[kani::unwind(200)]
fn sha256_trace_len64() { sha256_case::<64>(63) }
// @harness props=C01,C02 kind=bounded bound=len=65,cut=64 tier=thorough timeout=900
#[kani::proof]
#[kani::stub(impl256::digest_block, rec256)]
#[kani::unwind(200)]
fn sha256_trace_len65() { sha256_case::<65>(64) }
// @harness props=C01,C02 kind=bounded bound=len=111,cut=1 tier=quick timeout=900
#[kani::proof]
#[kani::stub(impl512::digest_block, rec512)]
#[kani::unwind(300)]
fn sha512_trace_len111() { sha512_case::<111>(1) }
// @harness props=C01,C02 kind=bounded bound=len=112,cut=111 tier=quick timeout=900
#[kani::proof]
#[kani::stub(impl512::digest_block, rec512)]
#[kani::unwind(300)]
fn sha512_trace_len112() { sha512_case::<112>(111) }
// @harness props=C01,C02 kind=bounded bound=len=128,cut=127 tier=thorough timeout=1200
#[kani::proof]
#[kani::stub(impl512::digest_block, rec512)]
#[kani::unwind(300)]
fn sha512_trace_len128() { sha512_case::<128>(127) }

// ---- initial hash values (FIPS 180-4 5.3.2-5.3.6) and output serialisation / truncation (6.2.2-6.7): with the block function
// replaced by the recorder (state untouched), the digest of any message is the big-endian serialisation of H(0) cut to the
// digest length.  No inputs: a complete check of the six IV tables and of output_{224,256,384,512}bits_at.
fn be_words_64(h: &[u64; 8], out: &mut [u8; 64]) {
    let mut i = 0;
    while i < 8 {
        let mut j = 0;
        while j < 8 {
            out[8 * i + j] = (h[i] >> (56 - 8 * j)) as u8;
            j += 1;
        }
        i += 1;
    }
}
fn be_words_32(h: &[u32; 8], out: &mut [u8; 64]) {
    let mut i = 0;
    while i < 8 {
        let mut j = 0;
        while j < 4 {
            out[4 * i + j] = (h[i] >> (24 - 8 * j)) as u8;
            j += 1;
        }
        i += 1;
    }
}
fn prefix_eq(d: &[u8], want: &[u8; 64]) {
    let _ = take();
    let mut i = 0;
    while i < d.len() {
        assert!(d[i] == want[i], "digest byte == serialised H(0) byte");
        i += 1;
    }
}
// @harness props=C01 kind=full tier=quick timeout=600
#[kani::proof]
#[kani::stub(impl512::digest_block, rec512)]
#[kani::stub(impl256::digest_block, rec256)]
#[kani::unwind(130)]
fn sha2_initial_values_and_truncation() {
    let mut w = [0u8; 64];
    be_words_64(&[0x6a09e667f3bcc908, 0xbb67ae8584caa73b, 0x3c6ef372fe94f82b, 0xa54ff53a5f1d36f1, 0x510e527fade682d1, 0x9b05688c2b3e6c1f,
                  0x1f83d9abfb41bd6b, 0x5be0cd19137e2179], &mut w);
    prefix_eq(&Context512::new().finalize(), &w);
    be_words_64(&[0xcbbb9d5dc1059ed8, 0x629a292a367cd507, 0x9159015a3070dd17, 0x152fecd8f70e5939, 0x67332667ffc00b31, 0x8eb44a8768581511,
                  0xdb0c2e0d64f98fa7, 0x47b5481dbefa4fa4], &mut w);
    prefix_eq(&Context384::new().finalize(), &w);
    be_words_64(&[0x22312194fc2bf72c, 0x9f555fa3c84c64c2, 0x2393b86b6f53b151, 0x963877195940eabd, 0x96283ee2a88effe3, 0xbe5e1e2553863992,
                  0x2b0199fc2c85b8aa, 0x0eb72ddc81c52ca2], &mut w);
    prefix_eq(&Context512_256::new().finalize(), &w);
    be_words_64(&[0x8c3d37c819544da2, 0x73e1996689dcd4d6, 0x1dfab7ae32ff9c82, 0x679dd514582f9fcf, 0x0f6d2b697bd44da8, 0x77e36f7304c48942,
                  0x3f9d85a86a1d36c8, 0x1112e6ad91d692a1], &mut w);
    prefix_eq(&Context512_224::new().finalize(), &w);
    be_words_32(&[0x6a09e667, 0xbb67ae85, 0x3c6ef372, 0xa54ff53a, 0x510e527f, 0x9b05688c, 0x1f83d9ab, 0x5be0cd19], &mut w);
    prefix_eq(&Context256::new().finalize(), &w);
    be_words_32(&[0xc1059ed8, 0x367cd507, 0x3070dd17, 0xf70e5939, 0xffc00b31, 0x68581511, 0x64f98fa7, 0xbefa4fa4], &mut w);
    prefix_eq(&Context224::new().finalize(), &w);
    kani::cover!(true);
}
