//! host: src/hashing/sha2/mod.rs
//! C01 / C02 for the SHA-2 contexts above the compression function: with `digest_block` replaced by a recorder, the bytes
//! handed to it for a message m are exactly the FIPS 180-4 padded message m | 0x80 | 0^k | be(8*|m|) (64-bit length for the
//! 256 family, 128-bit for the 512 family), and every split / clone / reset history hands it the same bytes.  The digest is
//! a function of that trace, the (constant) IV and the compression function only, so equal traces give equal digests for
//! any compression function.  Bounded in message length (concrete lengths at the padding boundaries), symbolic content.
use super::*;

const TMAX: usize = 384;
static mut TRACE: [u8; TMAX] = [0; TMAX];
static mut TLEN: usize = 0;
fn rec256(_state: &mut [u32; 8], block: &[u8]) {
    unsafe {
        let mut i = 0;
        while i < block.len() {
            TRACE[TLEN] = block[i];
            TLEN += 1;
            i += 1;
        }
    }
}
fn rec512(_state: &mut [u64; 8], block: &[u8]) {
    unsafe {
        let mut i = 0;
        while i < block.len() {
            TRACE[TLEN] = block[i];
            TLEN += 1;
            i += 1;
        }
    }
}
fn take() -> ([u8; TMAX], usize) {
    unsafe {
        let r = (TRACE, TLEN);
        TLEN = 0;
        r
    }
}
/// byte k of the FIPS 180-4 padding of a message of length n (block size bs, length field lf bytes, big-endian bit count)
fn md_pad_byte(msg: &[u8], bs: usize, lf: usize, k: usize) -> u8 {
    let n = msg.len();
    let total = (n + 1 + lf + bs - 1) / bs * bs;
    if k < n {
        msg[k]
    } else if k == n {
        0x80
    } else if k < total - 8 {
        0
    } else {
        (((n as u64) * 8) >> (8 * (total - 1 - k))) as u8
    }
}
fn check_trace(msg: &[u8], bs: usize, lf: usize) {
    let (t, n) = take();
    let total = (msg.len() + 1 + lf + bs - 1) / bs * bs;
    assert!(n == total, "number of bytes compressed");
    let mut k = 0;
    while k < total {
        assert!(t[k] == md_pad_byte(msg, bs, lf, k), "padded message byte");
        k += 1;
    }
}
fn sha256_case<const N: usize>(cut: usize) {
    let m: [u8; N] = kani::any();
    let _ = Context256::new().update(&m).finalize();
    check_trace(&m, 64, 8);
    // split, with an empty piece and a clone taken mid-stream; reuse after finalize_reset
    let mut c = Context256::new();
    c.update_mut(&m[..cut]);
    c.update_mut(&m[..0]);
    let d = c.clone();
    c.update_mut(&m[cut..]);
    let _ = c.finalize_reset();
    check_trace(&m, 64, 8);
    c.update_mut(&m);
    let _ = c.finalize();
    check_trace(&m, 64, 8);
    let _ = d.update(&m[cut..]).finalize();
    check_trace(&m, 64, 8);
    kani::cover!(true);
}
fn sha512_case<const N: usize>(cut: usize) {
    let m: [u8; N] = kani::any();
    let _ = Context512::new().update(&m).finalize();
    check_trace(&m, 128, 16);
    let mut c = Context512::new();
    c.update_mut(&m[..cut]);
    let d = c.clone();
    c.update_mut(&m[cut..]);
    let _ = c.finalize_reset();
    check_trace(&m, 128, 16);
    c.update_mut(&m);
    let _ = c.finalize();
    check_trace(&m, 128, 16);
    let _ = d.update(&m[cut..]).finalize();
    check_trace(&m, 128, 16);
    kani::cover!(true);
}
// @harness props=C01,C02 kind=bounded bound=len=0 tier=quick timeout=600
#[kani::proof]
#[kani::stub(impl256::digest_block, rec256)]
#[kani::unwind(200)]
fn sha256_trace_len0() { sha256_case::<0>(0) }
// @harness props=C01,C02 kind=bounded bound=len=55,cut=1 tier=quick timeout=600
#[kani::proof]
#[kani::stub(impl256::digest_block, rec256)]
#[kani::unwind(200)]
fn sha256_trace_len55() { sha256_case::<55>(1) }
// @harness props=C01,C02 kind=bounded bound=len=56,cut=55 tier=quick timeout=600
#[kani::proof]
#[kani::stub(impl256::digest_block, rec256)]
#[kani::unwind(200)]
fn sha256_trace_len56() { sha256_case::<56>(55) }
// @harness props=C01,C02 kind=bounded bound=len=64,cut=63 tier=quick timeout=600
#[kani::proof]
#[kani::stub(impl256::digest_block, rec256)]
#[kani::unwind(200)]
fn sha256_trace_len64() { sha256_case::<64>(63) }
// @harness props=C01,C02 kind=bounded bound=len=65,cut=64 tier=thorough timeout=900
#[kani::proof]
#[kani::stub(impl256::digest_block, rec256)]
#[kani::unwind(200)]
fn sha256_trace_len65() { sha256_case::<65>(64) }
// @harness props=C01,C02 kind=bounded bound=len=111,cut=1 tier=quick timeout=900
#[kani::proof]
#[kani::stub(impl512::digest_block, rec512)]
#[kani::unwind(300)]
fn sha512_trace_len111() { sha512_case::<111>(1) }
// @harness props=C01,C02 kind=bounded bound=len=112,cut=111 tier=quick timeout=900
#[kani::proof]
#[kani::stub(impl512::digest_block, rec512)]
#[kani::unwind(300)]
fn sha512_trace_len112() { sha512_case::<112>(111) }
// @harness props=C01,C02 kind=bounded bound=len=128,cut=127 tier=thorough timeout=1200
#[kani::proof]
#[kani::stub(impl512::digest_block, rec512)]
#[kani::unwind(300)]
fn sha512_trace_len128() { sha512_case::<128>(127) }
