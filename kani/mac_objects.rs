//! host: src/hashing/mod.rs
//! C09 for the legacy keyed BLAKE2b / BLAKE2s MAC objects: after `Mac::reset` the object behaves like a freshly constructed
//! one with the same key and parameters.  The compression function is replaced by a recorder (equal block traces give equal
//! results for any compression function; the real one is far beyond the SAT back end); in a native replay the recorder is
//! not applied and the real outputs are compared instead.
use super::blake2::{EngineB, EngineS, LastBlock};
use crate::blake2b::Blake2b;
use crate::blake2s::Blake2s;
use crate::digest::Digest;
use crate::mac::Mac;

const MAXB: usize = 6;
static mut TRACE: [[u8; 129]; MAXB] = [[0; 129]; MAXB];
static mut TCTR: [u64; MAXB] = [0; MAXB];
static mut NB: usize = 0;
fn rec_b(this: &mut EngineB, buf: &[u8], last: LastBlock) {
    unsafe {
        assert!(NB < MAXB && buf.len() == 128);
        let mut i = 0;
        while i < 128 {
            TRACE[NB][i] = buf[i];
            i += 1;
        }
        TRACE[NB][128] = (last == LastBlock::Yes) as u8;
        TCTR[NB] = this.t[0];
        NB += 1;
    }
}
fn rec_s(this: &mut EngineS, buf: &[u8], last: LastBlock) {
    unsafe {
        assert!(NB < MAXB && buf.len() == 64);
        let mut i = 0;
        while i < 64 {
            TRACE[NB][i] = buf[i];
            i += 1;
        }
        TRACE[NB][128] = (last == LastBlock::Yes) as u8;
        TCTR[NB] = this.t[0] as u64;
        NB += 1;
    }
}
fn take_trace() -> ([[u8; 129]; MAXB], [u64; MAXB], usize) {
    unsafe {
        let r = (TRACE, TCTR, NB);
        NB = 0;
        TRACE = [[0; 129]; MAXB];
        TCTR = [0; MAXB];
        r
    }
}
fn same_trace(a: &([[u8; 129]; MAXB], [u64; MAXB], usize), b: &([[u8; 129]; MAXB], [u64; MAXB], usize)) -> bool {
    let mut ok = a.2 == b.2;
    let mut i = 0;
    while i < MAXB {
        let mut j = 0;
        while j < 129 {
            ok &= a.0[i][j] == b.0[i][j];
            j += 1;
        }
        ok &= a.1[i] == b.1[i];
        i += 1;
    }
    ok
}
// keyed BLAKE2b MAC: result; Mac::reset; same message -> the same MAC as a fresh new_keyed(outlen, key) object
// @harness props=C09 kind=bounded bound=keylen=16,msglen=5,outlen=32 tier=quick timeout=600 pairs=reset
#[kani::proof]
#[kani::stub(EngineB::compress, rec_b)]
#[kani::unwind(131)]
fn blake2b_mac_reset_keeps_key() {
    let key: [u8; 16] = kani::any();
    let msg: [u8; 5] = kani::any();
    let mut m = Blake2b::new_keyed(32, &key);
    Mac::input(&mut m, &msg);
    let mut r1 = [0u8; 32];
    m.raw_result(&mut r1);
    let t1 = take_trace();
    Mac::reset(&mut m);
    Mac::input(&mut m, &msg);
    let mut r2 = [0u8; 32];
    m.raw_result(&mut r2);
    let t2 = take_trace();
    assert!(same_trace(&t1, &t2), "after Mac::reset the object compresses the key block again");
    assert!(r1 == r2, "same MAC before and after Mac::reset");
    kani::cover!(true);
}
// the legacy digest object agrees with a fresh object after Digest::reset, and refuses input after result
// @harness props=C09 kind=bounded bound=msglen=5,outlen=32 tier=quick timeout=600
#[kani::proof]
#[kani::stub(EngineB::compress, rec_b)]
#[kani::unwind(131)]
fn blake2b_digest_reset_is_fresh() {
    let msg: [u8; 5] = kani::any();
    let mut d = Blake2b::new(32);
    Digest::input(&mut d, &msg);
    let mut r1 = [0u8; 32];
    Digest::result(&mut d, &mut r1);
    let t1 = take_trace();
    Digest::reset(&mut d);
    Digest::input(&mut d, &msg[..2]);
    Digest::input(&mut d, &msg[2..]);
    let mut r2 = [0u8; 32];
    Digest::result(&mut d, &mut r2);
    let t2 = take_trace();
    assert!(same_trace(&t1, &t2));
    assert!(r1 == r2);
    kani::cover!(true);
}
// @harness props=C09,C20 kind=full tier=quick expect=refuse timeout=300
#[kani::proof]
#[kani::stub(EngineB::compress, rec_b)]
#[kani::unwind(131)]
fn blake2b_input_after_result_refused() {
    let mut d = Blake2b::new(32);
    let mut r1 = [0u8; 32];
    Digest::result(&mut d, &mut r1);
    Digest::input(&mut d, &[1]);
    kani::cover!(true);
}

// the same for BLAKE2s
// @harness props=C09 kind=bounded bound=keylen=16,msglen=5,outlen=32 tier=quick timeout=600 pairs=reset
#[kani::proof]
#[kani::stub(EngineS::compress, rec_s)]
#[kani::unwind(131)]
fn blake2s_mac_reset_keeps_key() {
    let key: [u8; 16] = kani::any();
    let msg: [u8; 5] = kani::any();
    let mut m = Blake2s::new_keyed(32, &key);
    Mac::input(&mut m, &msg);
    let mut r1 = [0u8; 32];
    m.raw_result(&mut r1);
    let t1 = take_trace();
    Mac::reset(&mut m);
    Mac::input(&mut m, &msg);
    let mut r2 = [0u8; 32];
    m.raw_result(&mut r2);
    let t2 = take_trace();
    assert!(same_trace(&t1, &t2), "after Mac::reset the object compresses the key block again");
    assert!(r1 == r2, "same MAC before and after Mac::reset");
    kani::cover!(true);
}

// Blake2b MAC with an empty key abandoned in the middle of a message: after Mac::reset it gives the MAC of a fresh
// new_keyed(outlen, key) object
// @harness props=C09 kind=bounded bound=keylen=0,abandoned=3,msglen=5,outlen=32 tier=quick timeout=600 pairs=reset
#[kani::proof]
#[kani::stub(EngineB::compress, rec_b)]
#[kani::unwind(131)]
fn blake2b_mac_reset_mid_message() {
    let key: [u8; 0] = [];
    let kl: usize = 0;
    let junk: [u8; 3] = kani::any();
    let msg: [u8; 5] = kani::any();
    let mut f = Blake2b::new_keyed(32, &key[..kl]);
    Mac::input(&mut f, &msg);
    let mut r1 = [0u8; 32];
    f.raw_result(&mut r1);
    let t1 = take_trace();
    let mut m = Blake2b::new_keyed(32, &key[..kl]);
    Mac::input(&mut m, &junk);
    Mac::reset(&mut m);
    Mac::input(&mut m, &msg);
    let mut r2 = [0u8; 32];
    m.raw_result(&mut r2);
    let t2 = take_trace();
    assert!(same_trace(&t1, &t2), "after a mid-message Mac::reset the object compresses what a fresh one does");
    assert!(r1 == r2, "same MAC as a fresh object");
    kani::cover!(true);
}

// Blake2s MAC with an empty key abandoned in the middle of a message: after Mac::reset it gives the MAC of a fresh
// new_keyed(outlen, key) object
// @harness props=C09 kind=bounded bound=keylen=0,abandoned=3,msglen=5,outlen=32 tier=quick timeout=600 pairs=reset
#[kani::proof]
#[kani::stub(EngineS::compress, rec_s)]
#[kani::unwind(131)]
fn blake2s_mac_reset_mid_message() {
    let key: [u8; 0] = [];
    let kl: usize = 0;
    let junk: [u8; 3] = kani::any();
    let msg: [u8; 5] = kani::any();
    let mut f = Blake2s::new_keyed(32, &key[..kl]);
    Mac::input(&mut f, &msg);
    let mut r1 = [0u8; 32];
    f.raw_result(&mut r1);
    let t1 = take_trace();
    let mut m = Blake2s::new_keyed(32, &key[..kl]);
    Mac::input(&mut m, &junk);
    Mac::reset(&mut m);
    Mac::input(&mut m, &msg);
    let mut r2 = [0u8; 32];
    m.raw_result(&mut r2);
    let t2 = take_trace();
    assert!(same_trace(&t1, &t2), "after a mid-message Mac::reset the object compresses what a fresh one does");
    assert!(r1 == r2, "same MAC as a fresh object");
    kani::cover!(true);
}

// ---- C20: re-keying an existing context with a key longer than the algorithm allows is refused loudly (BLAKE2s: more than
// 32 bytes, BLAKE2b: more than 64), on every re-keying path: ContextDyn::reset_with_key, finalize_reset_with_key_at, the
// const-generic Context::reset_with_key, and the legacy objects' reset_with_key.  Key lengths one above the limit and at the
// block size (the lengths that still fit the internal buffer); the compression function is the recorder (never reached).
fn rekey_paths_s<const KL: usize>() {
    let key = [7u8; KL];
    let which: u8 = kani::any();
    kani::assume(which < 4);
    if which == 0 {
        let mut c = super::blake2s::ContextDyn::new(32);
        c.reset_with_key(&key);
    } else if which == 1 {
        let mut c = super::blake2s::ContextDyn::new(32);
        let mut out = [0u8; 32];
        c.finalize_reset_with_key_at(&key, &mut out);
    } else if which == 2 {
        let mut c = super::blake2s::Context::<256>::new();
        c.reset_with_key(&key);
    } else {
        let mut m = Blake2s::new(32);
        m.reset_with_key(&key);
    }
    kani::cover!(true);
}
fn rekey_paths_b<const KL: usize>() {
    let key = [7u8; KL];
    let which: u8 = kani::any();
    kani::assume(which < 4);
    if which == 0 {
        let mut c = super::blake2b::ContextDyn::new(64);
        c.reset_with_key(&key);
    } else if which == 1 {
        let mut c = super::blake2b::ContextDyn::new(64);
        let mut out = [0u8; 64];
        c.finalize_reset_with_key_at(&key, &mut out);
    } else if which == 2 {
        let mut c = super::blake2b::Context::<512>::new();
        c.reset_with_key(&key);
    } else {
        let mut m = Blake2b::new(64);
        m.reset_with_key(&key);
    }
    kani::cover!(true);
}
// @harness props=C20,C09 kind=bounded bound=keylen=33 tier=quick expect=refuse timeout=600
#[kani::proof]
#[kani::stub(EngineS::compress, rec_s)]
#[kani::unwind(131)]
fn blake2s_rekey_refuses_33_byte_key() { rekey_paths_s::<33>() }
// @harness props=C20,C09 kind=bounded bound=keylen=64 tier=quick expect=refuse timeout=600
#[kani::proof]
#[kani::stub(EngineS::compress, rec_s)]
#[kani::unwind(131)]
fn blake2s_rekey_refuses_64_byte_key() { rekey_paths_s::<64>() }
// @harness props=C20,C09 kind=bounded bound=keylen=65 tier=quick expect=refuse timeout=600
#[kani::proof]
#[kani::stub(EngineB::compress, rec_b)]
#[kani::unwind(131)]
fn blake2b_rekey_refuses_65_byte_key() { rekey_paths_b::<65>() }
// @harness props=C20,C09 kind=bounded bound=keylen=128 tier=quick expect=refuse timeout=600
#[kani::proof]
#[kani::stub(EngineB::compress, rec_b)]
#[kani::unwind(131)]
fn blake2b_rekey_refuses_128_byte_key() { rekey_paths_b::<128>() }
