//! host: src/scrypt.rs
//! C10 for scrypt below the PBKDF2 calls: BlockMix and ROMix (RFC 7914 sections 4, 5) with the Salsa20/8 core replaced by a
//! cheap tagging function (the core itself is a Verus obligation), against the RFC algorithms written out in the harness over
//! the same function; parameter validation for every (log_n, r, p).  Bounded in r and N, symbolic block contents.
use super::*;

/// stand-in for the Salsa20/8 core: a cheap byte-wise function that depends on every input byte's position
fn tag_core(input: &[u8], output: &mut [u8]) {
    assert!(input.len() == 64 && output.len() == 64);
    let mut i = 0;
    while i < 64 {
        output[i] = input[i].rotate_left(1) ^ input[(i + 1) % 64] ^ (i as u8);
        i += 1;
    }
}
/// RFC 7914 section 4 scryptBlockMix over tag_core: X = B[2r-1]; for i in 0..2r: X = H(X xor B[i]); Y[i] = X;
/// B' = Y[0], Y[2], ..., Y[2r-2], Y[1], Y[3], ..., Y[2r-1]
fn spec_block_mix<const LEN: usize>(b: &[u8; LEN]) -> [u8; LEN] {
    let blocks = LEN / 64;
    let r = blocks / 2;
    let mut x = [0u8; 64];
    let mut k = 0;
    while k < 64 {
        x[k] = b[LEN - 64 + k];
        k += 1;
    }
    let mut out = [0u8; LEN];
    let mut i = 0;
    while i < blocks {
        let mut t = [0u8; 64];
        let mut k = 0;
        while k < 64 {
            t[k] = x[k] ^ b[64 * i + k];
            k += 1;
        }
        tag_core(&t, &mut x);
        let slot = if i % 2 == 0 { i / 2 } else { r + i / 2 };
        let mut k = 0;
        while k < 64 {
            out[64 * slot + k] = x[k];
            k += 1;
        }
        i += 1;
    }
    out
}
fn block_mix_case<const LEN: usize>() {
    let b: [u8; LEN] = kani::any();
    let mut got = [0u8; LEN];
    scrypt_block_mix(&b, &mut got);
    let want = spec_block_mix(&b);
    let mut blk = 0;
    while blk < LEN / 64 {
        let mut k = 0;
        while k < 64 {
            assert!(got[64 * blk + k] == want[64 * blk + k], "BlockMix output byte");
            k += 1;
        }
        blk += 1;
    }
    kani::cover!(true);
}
// @harness props=C10 kind=bounded bound=r=1 tier=quick timeout=500
#[kani::proof]
#[kani::stub(salsa20_8, tag_core)]
#[kani::unwind(66)]
fn scrypt_block_mix_r1() { block_mix_case::<128>() }
// @harness props=C10 kind=bounded bound=r=2 tier=thorough timeout=900
#[kani::proof]
#[kani::stub(salsa20_8, tag_core)]
#[kani::unwind(66)]
fn scrypt_block_mix_r2() { block_mix_case::<256>() }
// @harness props=C10 kind=bounded bound=r=3 tier=quick timeout=900
#[kani::proof]
#[kani::stub(salsa20_8, tag_core)]
#[kani::unwind(66)]
fn scrypt_block_mix_r3() { block_mix_case::<384>() }
/// RFC 7914 section 5 scryptROMix over spec_block_mix: V[i] = X, X = BlockMix(X) for i < N;
/// then N times: j = Integerify(X) mod N (first word of the last 64-byte block, little-endian), X = BlockMix(X xor V[j])
fn ro_mix_case<const N: usize>() {
    let b0: [u8; 128] = kani::any();
    let mut b = b0;
    let mut v = [0u8; 512];
    let mut t = [0u8; 128];
    scrypt_ro_mix(&mut b, &mut v[..128 * N], &mut t, N);
    let mut x = b0;
    let mut vs = [[0u8; 128]; 4];
    let mut i = 0;
    while i < N {
        vs[i] = x;
        x = spec_block_mix(&x);
        i += 1;
    }
    let mut i = 0;
    while i < N {
        let j = ((x[64] as usize) | ((x[65] as usize) << 8) | ((x[66] as usize) << 16) | ((x[67] as usize) << 24)) % N;
        let mut y = [0u8; 128];
        let mut k = 0;
        while k < 128 {
            y[k] = x[k] ^ vs[j][k];
            k += 1;
        }
        x = spec_block_mix(&y);
        i += 1;
    }
    let mut blk = 0;
    while blk < 2 {
        let mut k = 0;
        while k < 64 {
            assert!(b[64 * blk + k] == x[64 * blk + k], "ROMix output byte");
            k += 1;
        }
        blk += 1;
    }
    kani::cover!(true);
}
// @attempt (not run: no verdict in 25 min, and kani-driver buffers the run's CBMC messages: 36 GB after 22 min, 60 GB at the end) props=C10 kind=bounded bound=N=2,r=1 tier=thorough timeout=1500
#[kani::proof]
#[kani::stub(salsa20_8, tag_core)]
#[kani::unwind(130)]
fn scrypt_ro_mix_n2() { ro_mix_case::<2>() }
// @attempt (not run: does not finish within an hour) props=C10 kind=bounded bound=N=4,r=1 tier=thorough timeout=3600
#[kani::proof]
#[kani::stub(salsa20_8, tag_core)]
#[kani::unwind(130)]
fn scrypt_ro_mix_n4() { ro_mix_case::<4>() }
/// RFC 7914 section 2 constraints (with the addressability checks of a 64-bit usize)
fn params_valid(log_n: u8, r: u32, p: u32) -> bool {
    let (r, p) = (r as u128, p as u128);
    r > 0 && p > 0 && log_n > 0 && log_n < 64 && (log_n as u128) < r * 16 && r * p < 0x4000_0000
        && (128 * r) << log_n < (1u128 << 64) && 128 * r * p < (1u128 << 64)
}
// every admissible parameter triple is accepted and stored unchanged
// @harness props=C10,C20 kind=full tier=quick timeout=300
#[kani::proof]
fn scrypt_params_accepts_valid() {
    let (log_n, r, p): (u8, u32, u32) = (kani::any(), kani::any(), kani::any());
    kani::assume(params_valid(log_n, r, p));
    let sp = ScryptParams::new(log_n, r, p);
    assert!(sp.log_n == log_n && sp.r == r && sp.p == p);
    kani::cover!(true);
}
// every other triple is refused
// @harness props=C10,C20 kind=full tier=quick expect=refuse timeout=300
#[kani::proof]
fn scrypt_params_refuses_invalid() {
    let (log_n, r, p): (u8, u32, u32) = (kani::any(), kani::any(), kani::any());
    kani::assume(!params_valid(log_n, r, p));
    let _ = ScryptParams::new(log_n, r, p);
    kani::cover!(true);
}
