//! host: src/drg/chacha.rs
//! Witness harnesses for the DRG clause of C04: what `fill_bytes` / `fill_slice` deliver must not depend on what the
//! destination held.  The seed is concrete (the ChaCha block then constant-folds and the solver only sees the XOR with the
//! prior contents); the prior contents are symbolic.  The unbounded statement (all seeds, all request sequences) is the
//! Verus contract of these functions in units/chacha.vtpl; these harnesses supply the concrete counterexample.
use super::*;
use core::arch::x86_64::__m128i;

/// Kani 0.68 reports lane-wise wrapping SIMD addition as "simd_add would overflow" and cuts the path; with a concrete seed
/// every path is cut.  The intrinsic is replaced by its definition (four wrapping 32-bit lane additions).
#[allow(dead_code)]
pub fn mm_add_epi32_def(a: __m128i, b: __m128i) -> __m128i {
    let x: [u32; 4] = unsafe { core::mem::transmute(a) };
    let y: [u32; 4] = unsafe { core::mem::transmute(b) };
    let z = [x[0].wrapping_add(y[0]), x[1].wrapping_add(y[1]), x[2].wrapping_add(y[2]), x[3].wrapping_add(y[3])];
    unsafe { core::mem::transmute(z) }
}

// @harness props=C04 kind=bounded bound=seed=[7;32],N=8,rounds=8 tier=quick pairs=fill_bytes
#[kani::proof]
#[kani::stub(core::arch::x86_64::_mm_add_epi32, mm_add_epi32_def)]
#[kani::unwind(70)]
fn drg_fill_bytes_ignores_prior_contents() {
    let seed = [7u8; 32];
    let mut a = Drg::<8>::new(&seed);
    let mut b = Drg::<8>::new(&seed);
    let mut buf: [u8; 8] = kani::any();
    a.fill_bytes(&mut buf);
    let e: [u8; 8] = b.bytes();
    let mut i = 0;
    while i < 8 {
        assert!(buf[i] == e[i]);
        i += 1;
    }
    kani::cover!(true);
}
// @harness props=C04 kind=bounded bound=seed=[7;32],len=5,rounds=8 tier=quick pairs=fill_slice
#[kani::proof]
#[kani::stub(core::arch::x86_64::_mm_add_epi32, mm_add_epi32_def)]
#[kani::unwind(70)]
fn drg_fill_slice_ignores_prior_contents() {
    let seed = [7u8; 32];
    let mut a = Drg::<8>::new(&seed);
    let mut b = Drg::<8>::new(&seed);
    let mut buf: [u8; 8] = kani::any();
    let n: usize = 5;
    a.fill_slice(&mut buf[..n]);
    let e: [u8; 8] = b.bytes();
    let mut i = 0;
    while i < 8 {
        if i < n {
            assert!(buf[i] == e[i]);
        }
        i += 1;
    }
    kani::cover!(true);
}
