//! host: src/poly1305.rs
//! Witness harnesses for C06/C07: the real AEAD (one-shot and incremental, SSE2-backed) against the RFC 8439 2.8
//! construction spelled out in the harness over the library's own ChaCha context and Poly1305 object (each verified on
//! its own: C03/C04, C05).  Key and nonce are concrete (the block function constant-folds), lengths are concrete, AAD,
//! plaintext and the candidate tag are symbolic.  Bounded stand-ins that supply counterexamples; the unbounded statements
//! are the Verus contracts of units/aead.vtpl.
use super::*;
use crate::chacha20::ChaCha;
use crate::chacha20poly1305::{ChaChaPoly1305, Context, DecryptionResult, Tag};
use core::arch::x86_64::__m128i;

/// see kani/drg.rs: Kani reports wrapping lane addition as an overflow; the intrinsic is replaced by its definition
#[allow(dead_code)]
pub fn mm_add_epi32_def(a: __m128i, b: __m128i) -> __m128i {
    let x: [u32; 4] = unsafe { core::mem::transmute(a) };
    let y: [u32; 4] = unsafe { core::mem::transmute(b) };
    let z = [x[0].wrapping_add(y[0]), x[1].wrapping_add(y[1]), x[2].wrapping_add(y[2]), x[3].wrapping_add(y[3])];
    unsafe { core::mem::transmute(z) }
}
const KEY: [u8; 32] = [0x51; 32];
const NONCE: [u8; 12] = [0x0b; 12];

/// What the AEAD hands to the MAC is observed by replacing `Poly1305::block` with a recorder (the block function itself is
/// proved in the poly1305 unit; equal block traces give equal tags for any block function): trace of (16 bytes, "not the
/// final partial block").  The recorder leaves the accumulator alone.
const MAXB: usize = 8;
static mut TRACE: [[u8; 17]; MAXB] = [[0; 17]; MAXB];
static mut NB: usize = 0;
fn rec_block(this: &mut Poly1305, m: &[u8]) {
    assert!(m.len() == 16);
    unsafe {
        assert!(NB < MAXB);
        let mut i = 0;
        while i < 16 {
            TRACE[NB][i] = m[i];
            i += 1;
        }
        TRACE[NB][16] = !this.finalized as u8;
        NB += 1;
    }
}
/// RFC 8439 2.8: ciphertext = plaintext ^ stream from block 1 (block 0 gives the one-time key);
/// MAC input = aad | pad16 | ct | pad16 | le64(|aad|) | le64(|ct|), always a whole number of 16-byte blocks
fn rfc_ct<const R: usize, const N: usize>(pt: &[u8; N]) -> [u8; N] {
    let mut c = ChaCha::<R>::new(&KEY, &NONCE);
    c.seek(1);
    let mut ct = *pt;
    c.process_mut(&mut ct);
    ct
}
fn rfc_mac_byte<const A: usize, const N: usize>(aad: &[u8; A], ct: &[u8; N], k: usize) -> u8 {
    let pa = (A + 15) / 16 * 16;
    let pn = (N + 15) / 16 * 16;
    if k < A {
        aad[k]
    } else if k < pa {
        0
    } else if k < pa + N {
        ct[k - pa]
    } else if k < pa + pn {
        0
    } else if k < pa + pn + 8 {
        ((A as u64) >> (8 * (k - pa - pn))) as u8
    } else {
        ((N as u64) >> (8 * (k - pa - pn - 8))) as u8
    }
}
fn trace_is_rfc<const A: usize, const N: usize>(aad: &[u8; A], ct: &[u8; N]) {
    let total = (A + 15) / 16 * 16 + (N + 15) / 16 * 16 + 16;
    unsafe {
        assert!(NB == total / 16, "number of MAC blocks");
        let mut k = 0;
        while k < total {
            assert!(TRACE[k / 16][k % 16] == rfc_mac_byte(aad, ct, k), "MAC input byte");
            k += 1;
        }
        let mut b = 0;
        while b < total / 16 {
            assert!(TRACE[b][16] == 1, "every MAC block is a full block with the 2^128 marker");
            b += 1;
        }
        NB = 0;
    }
}
fn check_oneshot<const R: usize, const A: usize, const N: usize>() {
    let aad: [u8; A] = kani::any();
    let pt: [u8; N] = kani::any();
    let ect = rfc_ct::<R, N>(&pt);
    let mut ct = [0u8; N];
    let mut tag = [0u8; 16];
    ChaChaPoly1305::<R>::new(&KEY, &NONCE, &aad).encrypt(&pt, &mut ct, &mut tag);
    let mut i = 0;
    while i < N {
        assert!(ct[i] == ect[i], "ciphertext == RFC 8439");
        i += 1;
    }
    trace_is_rfc(&aad, &ect);
    // decryption authenticates the received ciphertext with the same MAC input and restores the plaintext
    let mut back = [0u8; N];
    let _ = ChaChaPoly1305::<R>::new(&KEY, &NONCE, &aad).decrypt(&ect, &mut back, &tag);
    let mut i = 0;
    while i < N {
        assert!(back[i] == pt[i], "decrypt inverts encrypt");
        i += 1;
    }
    trace_is_rfc(&aad, &ect);
    kani::cover!(true);
}
/// incremental interface with AAD and data each split in two (plus an empty first piece), in place and buffer to buffer
fn check_incremental<const R: usize, const A: usize, const N: usize>(a_cut: usize, n_cut: usize) {
    let aad: [u8; A] = kani::any();
    let pt: [u8; N] = kani::any();
    let ect = rfc_ct::<R, N>(&pt);
    let mut ctx = Context::<R>::new(&KEY, &NONCE);
    ctx.add_data(&aad[..a_cut]);
    ctx.add_data(&aad[a_cut..]);
    let mut enc = ctx.clone().to_encryption();
    let mut ct = pt;
    enc.encrypt_mut(&mut ct[..0]);
    enc.encrypt_mut(&mut ct[..n_cut]);
    let mut tail = [0u8; N];
    enc.encrypt(&pt[n_cut..], &mut tail[..N - n_cut]);
    let _ = enc.finalize();
    let mut i = 0;
    while i < N {
        let c = if i < n_cut { ct[i] } else { tail[i - n_cut] };
        assert!(c == ect[i], "streamed ciphertext == RFC 8439");
        i += 1;
    }
    trace_is_rfc(&aad, &ect);
    // a fresh context for the decrypting side (an AAD of 16 bytes or more has MAC blocks recorded before any clone)
    let mut ctx2 = Context::<R>::new(&KEY, &NONCE);
    ctx2.add_data(&aad[..a_cut]);
    ctx2.add_data(&aad[a_cut..]);
    let mut dec = ctx2.to_decryption();
    let mut back = ect;
    dec.decrypt_mut(&mut back[..n_cut]);
    dec.decrypt_mut(&mut back[n_cut..]);
    let _ = dec.finalize(&Tag([0u8; 16]));
    let mut i = 0;
    while i < N {
        assert!(back[i] == pt[i]);
        i += 1;
    }
    trace_is_rfc(&aad, &ect);
    kani::cover!(true);
}
// @harness props=C06,C07 kind=bounded bound=key,nonce_fixed,rounds=8,aad=0,len=0 tier=thorough timeout=1200 pairs=finalize_raw,pad16,encrypt,decrypt,new,finalize
#[kani::proof]
#[kani::stub(core::arch::x86_64::_mm_add_epi32, mm_add_epi32_def)]
#[kani::stub(Poly1305::block, rec_block)]
#[kani::unwind(70)]
fn aead_oneshot_a0_n0() { check_oneshot::<8, 0, 0>() }
// @attempt (not run: duplicate of aead_oneshot_r2_a5_n16) props=C06,C07 kind=bounded bound=key,nonce_fixed,rounds=8,aad=5,len=16 tier=thorough timeout=1200 pairs=finalize_raw,pad16,encrypt,decrypt,new,finalize
#[kani::proof]
#[kani::stub(core::arch::x86_64::_mm_add_epi32, mm_add_epi32_def)]
#[kani::stub(Poly1305::block, rec_block)]
#[kani::unwind(70)]
fn aead_oneshot_a5_n16() { check_oneshot::<8, 5, 16>() }
// @attempt (not run: together with the other AEAD harnesses kani-driver exceeds 56 GB and is OOM-killed) props=C06,C07 kind=bounded bound=key,nonce_fixed,rounds=8,aad=16,len=17 tier=thorough timeout=1200 pairs=finalize_raw,pad16,encrypt,decrypt,new,finalize
#[kani::proof]
#[kani::stub(core::arch::x86_64::_mm_add_epi32, mm_add_epi32_def)]
#[kani::stub(Poly1305::block, rec_block)]
#[kani::unwind(70)]
fn aead_oneshot_a16_n17() { check_oneshot::<8, 16, 17>() }
// @attempt (not run: unwinding bound too small, and memory as above) props=C06,C07 kind=bounded bound=key,nonce_fixed,rounds=8,aad=13(cut5),len=33(cut16) tier=thorough timeout=1200 pairs=to_encryption,to_decryption,add_data,add_encrypted,encrypt_mut,decrypt_mut,finalize_raw
#[kani::proof]
#[kani::stub(core::arch::x86_64::_mm_add_epi32, mm_add_epi32_def)]
#[kani::stub(Poly1305::block, rec_block)]
#[kani::unwind(70)]
fn aead_incremental_a13_n33() { check_incremental::<8, 13, 33>(5, 16) }
// @attempt (not run: memory as above) props=C06,C07 kind=bounded bound=key,nonce_fixed,rounds=8,aad=3(cut0),len=15(cut7) tier=thorough timeout=1200 pairs=to_encryption,to_decryption,add_data,add_encrypted,encrypt_mut,decrypt_mut,finalize_raw
#[kani::proof]
#[kani::stub(core::arch::x86_64::_mm_add_epi32, mm_add_epi32_def)]
#[kani::stub(Poly1305::block, rec_block)]
#[kani::unwind(70)]
fn aead_incremental_a3_n15() { check_incremental::<8, 3, 15>(0, 7) }
// further lengths
// lengths on both sides of the 16-byte MAC block boundary
// @harness props=C06,C07 kind=bounded bound=key,nonce_fixed,rounds=8,aad=5,len=16 tier=thorough timeout=900 pairs=finalize_raw,pad16,encrypt,decrypt,new,finalize
#[kani::proof]
#[kani::stub(core::arch::x86_64::_mm_add_epi32, mm_add_epi32_def)]
#[kani::stub(Poly1305::block, rec_block)]
#[kani::unwind(70)]
fn aead_oneshot_r2_a5_n16() { check_oneshot::<8, 5, 16>() }
// @harness props=C06,C07 kind=bounded bound=key,nonce_fixed,rounds=8,aad=16(cut3),len=32(cut16) tier=quick timeout=900 pairs=to_encryption,to_decryption,add_data,add_encrypted,encrypt_mut,decrypt_mut,finalize_raw
#[kani::proof]
#[kani::stub(core::arch::x86_64::_mm_add_epi32, mm_add_epi32_def)]
#[kani::stub(Poly1305::block, rec_block)]
#[kani::unwind(70)]
fn aead_incremental_r2_a16_n32() { check_incremental::<8, 16, 32>(3, 16) }
// @attempt (not run: memory as above) props=C06,C07 kind=bounded bound=key,nonce_fixed,rounds=8,aad=1(cut0),len=17(cut1) tier=thorough timeout=900 pairs=to_encryption,to_decryption,add_data,add_encrypted,encrypt_mut,decrypt_mut,finalize_raw
#[kani::proof]
#[kani::stub(core::arch::x86_64::_mm_add_epi32, mm_add_epi32_def)]
#[kani::stub(Poly1305::block, rec_block)]
#[kani::unwind(70)]
fn aead_incremental_r2_a1_n17() { check_incremental::<8, 1, 17>(0, 1) }
// C20: misuse fails loudly
// @harness props=C20 kind=bounded bound=taglen<=20 tier=quick expect=refuse timeout=600
#[kani::proof]
#[kani::stub(core::arch::x86_64::_mm_add_epi32, mm_add_epi32_def)]
#[kani::unwind(70)]
fn aead_encrypt_refuses_bad_tag_length() {
    let mut c = ChaChaPoly1305::<8>::new(&KEY, &NONCE, &[]);
    let mut out = [0u8; 4];
    let mut tag = [0u8; 20];
    let n: usize = kani::any();
    kani::assume(n <= 20 && n != 16);
    c.encrypt(&[1, 2, 3, 4], &mut out, &mut tag[..n]);
    kani::cover!(true);
}
// @harness props=C20 kind=full tier=thorough expect=refuse timeout=900
#[kani::proof]
#[kani::stub(core::arch::x86_64::_mm_add_epi32, mm_add_epi32_def)]
#[kani::stub(Poly1305::block, rec_block)]
#[kani::unwind(70)]
fn aead_reuse_after_encrypt_refused() {
    let mut c = ChaChaPoly1305::<8>::new(&KEY, &NONCE, &[]);
    let mut out = [0u8; 4];
    let mut tag = [0u8; 16];
    c.encrypt(&[1, 2, 3, 4], &mut out, &mut tag);
    let mut out2 = [0u8; 4];
    c.encrypt(&[1, 2, 3, 4], &mut out2, &mut tag);
    kani::cover!(true);
}
