//! host: src/cryptoutil.rs
//! C02 / C01 wiring of the block buffer shared by SHA-1, SHA-2 and RIPEMD-160: which bytes reach the block function, in which
//! order.  Verus cannot express the effect of a closure on captured state, so this part is a Kani proof on a small block
//! size (the code is generic in N; N = 4 keeps the case split small): bounded in N, call count and slice length.
use super::*;

// every history of 3 `input` calls on FixedBuffer<4>, symbolic lengths 0..=9, symbolic bytes:
// (bytes handed to the closure, in order) ++ buffer[..idx] == concatenation of the inputs; whole blocks only; idx < N
// @harness props=C02,C01 kind=bounded bound=N=4,calls=3,len<=9 tier=quick timeout=600 pairs=input
#[kani::proof]
#[kani::unwind(40)]
fn fixedbuffer4_three_inputs() {
    let data: [u8; 27] = kani::any();
    let l1: usize = kani::any();
    let l2: usize = kani::any();
    let l3: usize = kani::any();
    kani::assume(l1 <= 9 && l2 <= 9 && l3 <= 9);
    let mut log = [0u8; 32];
    let mut n = 0usize;
    let mut fb = FixedBuffer::<4>::new();
    {
        let mut f = |b: &[u8]| {
            assert!(b.len() % 4 == 0 && b.len() > 0);
            let mut i = 0;
            while i < b.len() {
                log[n] = b[i];
                n += 1;
                i += 1;
            }
        };
        fb.input(&data[0..l1], &mut f);
        fb.input(&data[l1..l1 + l2], &mut f);
        fb.input(&data[l1 + l2..l1 + l2 + l3], &mut f);
    }
    let total = l1 + l2 + l3;
    assert!(n + fb.buffer_idx == total);
    assert!(fb.buffer_idx < 4);
    let mut i = 0;
    while i < total {
        let got = if i < n { log[i] } else { fb.buffer[i - n] };
        assert!(got == data[i]);
        i += 1;
    }
    kani::cover!(true);
}
// Merkle-Damgard padding on FixedBuffer<8> with a 2-byte length field: for every fill level idx < 8, what reaches the block
// function followed by the buffer is pending | 0x80 | 0^k and the buffer is left with exactly `rem` bytes of room
// @harness props=C01,C02 kind=bounded bound=N=8,rem=2 tier=quick timeout=600 pairs=standard_padding,zero_until,next,full_buffer
#[kani::proof]
#[kani::unwind(20)]
fn fixedbuffer8_standard_padding() {
    let pending: [u8; 8] = kani::any();
    let idx: usize = kani::any();
    kani::assume(idx < 8);
    let mut fb = FixedBuffer::<8>::new();
    fb.input(&pending[..idx], |_b: &[u8]| { assert!(false); });
    let mut log = [0u8; 8];
    let mut calls = 0usize;
    fb.standard_padding(2, |b: &[u8; 8]| {
        log = *b;
        calls += 1;
    });
    assert!(fb.buffer_idx == 6, "room for the length field");
    // expected stream: pending | 0x80 | zeros, up to the next position congruent to 6 mod 8
    let two_blocks = idx + 1 > 6;
    assert!(calls == if two_blocks { 1 } else { 0 });
    let mut i = 0;
    while i < 14 {
        let want = if i < idx { pending[i] } else if i == idx { 0x80 } else { 0 };
        if two_blocks {
            if i < 8 { assert!(log[i] == want); } else { assert!(fb.buffer[i - 8] == want); }
        } else if i < 6 {
            assert!(fb.buffer[i] == want);
        }
        i += 1;
    }
    kani::cover!(true);
}
