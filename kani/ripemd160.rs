//! host: src/hashing/ripemd160.rs
//! C01 / C02 for the RIPEMD-160 context above the compression function (same method as kani/sha2.rs): with
//! `process_msg_block` replaced by a recorder the bytes compressed are the padded message with a 64-bit little-endian bit
//! length, for every split / clone / reset history.  Bounded in message length, symbolic content.
use super::*;

fn rec(data: &[u8], _h: &mut [u32; DIGEST_BUF_LEN]) {
    unsafe {
        let mut i = 0;
        while i < data.len() {
            TRACE[TLEN] = data[i];
            TLEN += 1;
            i += 1;
        }
    }
}
const TMAX: usize = 256;
static mut TRACE: [u8; TMAX] = [0; TMAX];
static mut TLEN: usize = 0;
fn take() -> ([u8; TMAX], usize) {
    unsafe {
        let r = (TRACE, TLEN);
        TLEN = 0;
        r
    }
}
fn check_trace(msg: &[u8], be: bool) {
    let (t, n) = take();
    let len = msg.len();
    let total = (len + 9 + 63) / 64 * 64;
    assert!(n == total, "number of bytes compressed");
    let mut k = 0;
    while k < total {
        let want = if k < len { msg[k] } else if k == len { 0x80 } else if k < total - 8 { 0 }
            else if be { (((len as u64) * 8) >> (8 * (total - 1 - k))) as u8 }
            else { (((len as u64) * 8) >> (8 * (k - (total - 8)))) as u8 };
        assert!(t[k] == want, "padded message byte");
        k += 1;
    }
}
fn case<const N: usize>(cut: usize, be: bool) {
    let m: [u8; N] = kani::any();
    let _ = Context::new().update(&m).finalize();
    check_trace(&m, be);
    let mut c = Context::new();
    c.update_mut(&m[..cut]);
    c.update_mut(&m[..0]);
    let d = c.clone();
    c.update_mut(&m[cut..]);
    let _ = c.finalize_reset();
    check_trace(&m, be);
    c.update_mut(&m);
    let _ = c.finalize();
    check_trace(&m, be);
    let _ = d.update(&m[cut..]).finalize();
    check_trace(&m, be);
    kani::cover!(true);
}
// @harness props=C01,C02 kind=bounded bound=len=0,cut=0 tier=quick timeout=900
#[kani::proof]
#[kani::stub(process_msg_block, rec)]
#[kani::unwind(200)]
fn ripemd160_trace_len0() { case::<0>(0, false) }
// @harness props=C01,C02 kind=bounded bound=len=55,cut=1 tier=quick timeout=900
#[kani::proof]
#[kani::stub(process_msg_block, rec)]
#[kani::unwind(200)]
fn ripemd160_trace_len55() { case::<55>(1, false) }
// @harness props=C01,C02 kind=bounded bound=len=56,cut=55 tier=quick timeout=900
#[kani::proof]
#[kani::stub(process_msg_block, rec)]
#[kani::unwind(200)]
fn ripemd160_trace_len56() { case::<56>(55, false) }
// @harness props=C01,C02 kind=bounded bound=len=64,cut=63 tier=thorough timeout=900
#[kani::proof]
#[kani::stub(process_msg_block, rec)]
#[kani::unwind(200)]
fn ripemd160_trace_len64() { case::<64>(63, false) }

// ---- the compression function itself against the paper's definition (appendix A) written as a loop over the tables r, r',
// s, s' and the five functions / constants per group of sixteen steps: a full-domain equivalence check (symbolic block and
// chaining value).  Both sides are the same sequence of additions, rotations and boolean functions, which is what lets CBMC
// close it; it is also the witness generator for the Verus unit ripemd160 (where a wrong table entry shows up as a timeout).
const SPEC_RL: [usize; 80] = [0, 1, 2, 3, 4, 5, 6, 7, 8, 9, 10, 11, 12, 13, 14, 15, 7, 4, 13, 1, 10, 6, 15, 3, 12, 0, 9, 5, 2, 14, 11, 8, 3, 10, 14, 4, 9, 15, 8, 1, 2, 7, 0, 6, 13, 11, 5, 12, 1, 9, 11, 10, 0, 8, 12, 4, 13, 3, 7, 15, 14, 5, 6, 2, 4, 0, 5, 9, 7, 12, 2, 10, 14, 1, 3, 8, 11, 6, 15, 13];
const SPEC_RR: [usize; 80] = [5, 14, 7, 0, 9, 2, 11, 4, 13, 6, 15, 8, 1, 10, 3, 12, 6, 11, 3, 7, 0, 13, 5, 10, 14, 15, 8, 12, 4, 9, 1, 2, 15, 5, 1, 3, 7, 14, 6, 9, 11, 8, 12, 2, 10, 0, 4, 13, 8, 6, 4, 1, 3, 11, 15, 0, 5, 12, 2, 13, 9, 7, 10, 14, 12, 15, 10, 4, 1, 5, 8, 7, 6, 2, 13, 14, 0, 3, 9, 11];
const SPEC_SL: [u32; 80] = [11, 14, 15, 12, 5, 8, 7, 9, 11, 13, 14, 15, 6, 7, 9, 8, 7, 6, 8, 13, 11, 9, 7, 15, 7, 12, 15, 9, 11, 7, 13, 12, 11, 13, 6, 7, 14, 9, 13, 15, 14, 8, 13, 6, 5, 12, 7, 5, 11, 12, 14, 15, 14, 15, 9, 8, 9, 14, 5, 6, 8, 6, 5, 12, 9, 15, 5, 11, 6, 8, 13, 12, 5, 12, 13, 14, 11, 8, 5, 6];
const SPEC_SR: [u32; 80] = [8, 9, 9, 11, 13, 15, 15, 5, 7, 7, 8, 11, 14, 14, 12, 6, 9, 13, 15, 7, 12, 8, 9, 11, 7, 7, 12, 7, 6, 15, 13, 11, 9, 7, 15, 11, 8, 6, 6, 14, 12, 13, 5, 14, 13, 13, 7, 5, 15, 5, 8, 11, 14, 14, 6, 14, 6, 9, 12, 9, 12, 5, 15, 8, 8, 5, 12, 9, 12, 5, 14, 6, 8, 13, 6, 5, 15, 13, 11, 11];
fn spec_f(g: usize, x: u32, y: u32, z: u32) -> u32 {
    match g { 0 => x ^ y ^ z, 1 => (x & y) | (!x & z), 2 => (x | !y) ^ z, 3 => (x & z) | (y & !z), _ => x ^ (y | !z) }
}
const SPEC_KL: [u32; 5] = [0x00000000, 0x5a827999, 0x6ed9eba1, 0x8f1bbcdc, 0xa953fd4e];
const SPEC_KR: [u32; 5] = [0x50a28be6, 0x5c4dd124, 0x6d703ef3, 0x7a6d76e9, 0x00000000];
fn spec_compress(h: &mut [u32; 5], x: &[u32; 16]) {
    let (mut a, mut b, mut c, mut d, mut e) = (h[0], h[1], h[2], h[3], h[4]);
    let (mut a2, mut b2, mut c2, mut d2, mut e2) = (h[0], h[1], h[2], h[3], h[4]);
    let mut j = 0;
    while j < 80 {
        let g = j / 16;
        let t = a.wrapping_add(spec_f(g, b, c, d)).wrapping_add(x[SPEC_RL[j]]).wrapping_add(SPEC_KL[g]).rotate_left(SPEC_SL[j]).wrapping_add(e);
        a = e; e = d; d = c.rotate_left(10); c = b; b = t;
        let t2 = a2.wrapping_add(spec_f(4 - g, b2, c2, d2)).wrapping_add(x[SPEC_RR[j]]).wrapping_add(SPEC_KR[g]).rotate_left(SPEC_SR[j]).wrapping_add(e2);
        a2 = e2; e2 = d2; d2 = c2.rotate_left(10); c2 = b2; b2 = t2;
        j += 1;
    }
    let t = h[1].wrapping_add(c).wrapping_add(d2);
    h[1] = h[2].wrapping_add(d).wrapping_add(e2);
    h[2] = h[3].wrapping_add(e).wrapping_add(a2);
    h[3] = h[4].wrapping_add(a).wrapping_add(b2);
    h[4] = h[0].wrapping_add(b).wrapping_add(c2);
    h[0] = t;
}
// @attempt (not run: under memory pressure goto-instrument is OOM-killed at 24 GB on the unrolled body; with the machine free CBMC gives no verdict within 20 min) props=C01 kind=full tier=thorough timeout=1200
#[kani::proof]
#[kani::unwind(82)]
fn ripemd160_compress_matches_paper() {
    let data: [u8; 64] = kani::any();
    let h0: [u32; 5] = kani::any();
    let mut h = h0;
    process_msg_block(&data, &mut h);
    let mut x = [0u32; 16];
    let mut i = 0;
    while i < 16 {
        x[i] = u32::from_le_bytes([data[4 * i], data[4 * i + 1], data[4 * i + 2], data[4 * i + 3]]);
        i += 1;
    }
    let mut e = h0;
    spec_compress(&mut e, &x);
    assert!(h[0] == e[0] && h[1] == e[1] && h[2] == e[2] && h[3] == e[3] && h[4] == e[4], "compress == paper");
    kani::cover!(true);
}
