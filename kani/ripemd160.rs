//! host: src/hashing/ripemd160.rs
//! C01 / C02 for the RIPEMD-160 context above the compression function (same method as kani/sha2.rs): with
//! `process_msg_block` replaced by a recorder the bytes compressed are the padded message with a 64-bit little-endian bit
//! length, for every split / clone / reset history.  Bounded in message length, symbolic content.
use super::*;

fn rec(data: &[u8], _h: &mut [u32; DIGEST_BUF_LEN]) {
    unsafe {
        let mut i = 0;
        while i < data.len() {
            TRACE[TLEN] = data[i];
            TLEN += 1;
            i += 1;
        }
    }
}
const TMAX: usize = 256;
static mut TRACE: [u8; TMAX] = [0; TMAX];
static mut TLEN: usize = 0;
fn take() -> ([u8; TMAX], usize) {
    unsafe {
        let r = (TRACE, TLEN);
        TLEN = 0;
        r
    }
}
fn check_trace(msg: &[u8], be: bool) {
    let (t, n) = take();
    let len = msg.len();
    let total = (len + 9 + 63) / 64 * 64;
    assert!(n == total, "number of bytes compressed");
    let mut k = 0;
    while k < total {
        let want = if k < len { msg[k] } else if k == len { 0x80 } else if k < total - 8 { 0 }
            else if be { (((len as u64) * 8) >> (8 * (total - 1 - k))) as u8 }
            else { (((len as u64) * 8) >> (8 * (k - (total - 8)))) as u8 };
        assert!(t[k] == want, "padded message byte");
        k += 1;
    }
}
fn case<const N: usize>(cut: usize, be: bool) {
    let m: [u8; N] = kani::any();
    let _ = Context::new().update(&m).finalize();
    check_trace(&m, be);
    let mut c = Context::new();
    c.update_mut(&m[..cut]);
    c.update_mut(&m[..0]);
    let d = c.clone();
    c.update_mut(&m[cut..]);
    let _ = c.finalize_reset();
    check_trace(&m, be);
    c.update_mut(&m);
    let _ = c.finalize();
    check_trace(&m, be);
    let _ = d.update(&m[cut..]).finalize();
    check_trace(&m, be);
    kani::cover!(true);
}
// @harness props=C01,C02 kind=bounded bound=len=0,cut=0 tier=quick timeout=900
#[kani::proof]
#[kani::stub(process_msg_block, rec)]
#[kani::unwind(200)]
fn ripemd160_trace_len0() { case::<0>(0, false) }
// @harness props=C01,C02 kind=bounded bound=len=55,cut=1 tier=quick timeout=900
#[kani::proof]
#[kani::stub(process_msg_block, rec)]
#[kani::unwind(200)]
fn ripemd160_trace_len55() { case::<55>(1, false) }
// @harness props=C01,C02 kind=bounded bound=len=56,cut=55 tier=quick timeout=900
#[kani::proof]
#[kani::stub(process_msg_block, rec)]
#[kani::unwind(200)]
fn ripemd160_trace_len56() { case::<56>(55, false) }
// @harness props=C01,C02 kind=bounded bound=len=64,cut=63 tier=thorough timeout=900
#[kani::proof]
#[kani::stub(process_msg_block, rec)]
#[kani::unwind(200)]
fn ripemd160_trace_len64() { case::<64>(63, false) }
