//! host: src/curve25519/mod.rs
//! C14 / C17: contracts that both curve backends must satisfy, stated once against a harness-side spec and run on both
//! builds (default = fe64/scalar64, `--features force-32bits` = fe32/scalar32).  All inputs symbolic, loops constant-bound:
//! complete proofs per build; agreement of the two backends follows because both equal the same spec function.
use super::*;

const L_LE: [u8; 32] = [0xed, 0xd3, 0xf5, 0x5c, 0x1a, 0x63, 0x12, 0x58, 0xd6, 0x9c, 0xf7, 0xa2, 0xde, 0xf9, 0xde, 0x14,
                        0, 0, 0, 0, 0, 0, 0, 0, 0, 0, 0, 0, 0, 0, 0, 0x10];
/// le(s) < L = 2^252 + 27742317777372353535851937790883648493, compared from the most significant byte down
fn spec_lt_l(s: &[u8; 32]) -> bool {
    let mut i = 32;
    while i > 0 {
        i -= 1;
        if s[i] < L_LE[i] {
            return true;
        }
        if s[i] > L_LE[i] {
            return false;
        }
    }
    false
}
fn check_canonical_scalar() {
    let s: [u8; 32] = kani::any();
    let r = Scalar::from_bytes_canonical(&s);
    assert!(r.is_some() == spec_lt_l(&s), "accepted exactly the encodings below the group order");
    if let Some(v) = r {
        let b = v.to_bytes();
        let mut i = 0;
        while i < 32 {
            assert!(b[i] == s[i], "an accepted scalar re-encodes to the same bytes");
            i += 1;
        }
    }
    kani::cover!(true);
}
// @harness props=C14,C15,C17 kind=full tier=quick build=default timeout=600 pairs=from_bytes_canonical,lt_order
#[kani::proof]
#[kani::unwind(34)]
fn scalar_canonical_iff_lt_l() { check_canonical_scalar() }
// @harness props=C14,C17 kind=full tier=quick build=force32 timeout=600 pairs=from_bytes_canonical
#[kani::proof]
#[kani::unwind(34)]
fn scalar_canonical_iff_lt_l_32() { check_canonical_scalar() }

const P: [u8; 32] = [0xed, 0xff, 0xff, 0xff, 0xff, 0xff, 0xff, 0xff, 0xff, 0xff, 0xff, 0xff, 0xff, 0xff, 0xff, 0xff,
                     0xff, 0xff, 0xff, 0xff, 0xff, 0xff, 0xff, 0xff, 0xff, 0xff, 0xff, 0xff, 0xff, 0xff, 0xff, 0x7f];
/// canonical(le(b) mod 2^255 mod p), byte-wise: clear bit 255, subtract p once if >= p
fn spec_canon(b: &[u8; 32]) -> [u8; 32] {
    let mut v = *b;
    v[31] &= 0x7f;
    let mut ge = true;
    let mut i = 32;
    while i > 0 {
        i -= 1;
        if v[i] < P[i] {
            ge = false;
            break;
        }
        if v[i] > P[i] {
            break;
        }
    }
    if ge {
        let mut borrow = 0i16;
        let mut j = 0;
        while j < 32 {
            let d = v[j] as i16 - P[j] as i16 - borrow;
            if d < 0 {
                v[j] = (d + 256) as u8;
                borrow = 1;
            } else {
                v[j] = d as u8;
                borrow = 0;
            }
            j += 1;
        }
    }
    v
}
fn check_decode_encode() {
    let b: [u8; 32] = kani::any();
    let f = Fe::from_bytes(&b);
    let got = f.to_bytes();
    let want = spec_canon(&b);
    let mut i = 0;
    while i < 32 {
        assert!(got[i] == want[i], "to_bytes(from_bytes(b)) is the canonical encoding of le(b) mod 2^255 mod p");
        i += 1;
    }
    assert!(f.is_negative() == ((want[0] & 1) != 0), "sign is the parity of the canonical value");
    let mut z = true;
    let mut i = 0;
    while i < 32 {
        z &= want[i] == 0;
        i += 1;
    }
    assert!(f.is_nonzero() == !z, "zero test on the canonical value");
    kani::cover!(true);
}
// @harness props=C17,C15,C12 kind=full tier=quick build=default timeout=900
#[kani::proof]
#[kani::unwind(34)]
fn fe_decode_encode_canonical() { check_decode_encode() }
// @harness props=C17 kind=full tier=quick build=force32 timeout=900
#[kani::proof]
#[kani::unwind(34)]
fn fe_decode_encode_canonical_32() { check_decode_encode() }
fn check_equality() {
    let x: [u8; 32] = kani::any();
    let y: [u8; 32] = kani::any();
    let e = Fe::from_bytes(&x) == Fe::from_bytes(&y);
    let sx = spec_canon(&x);
    let sy = spec_canon(&y);
    let mut same = true;
    let mut i = 0;
    while i < 32 {
        same &= sx[i] == sy[i];
        i += 1;
    }
    assert!(e == same, "== on decoded elements is equality in the field");
    kani::cover!(true);
}
// @harness props=C17,C15 kind=full tier=quick build=default timeout=900
#[kani::proof]
#[kani::unwind(41)]
fn fe_equality_is_field_equality() { check_equality() }
// @harness props=C17 kind=full tier=quick build=force32 timeout=900
#[kani::proof]
#[kani::unwind(41)]
fn fe_equality_is_field_equality_32() { check_equality() }

// ---- the views of a scalar that the two scalar multiplications consume (C13: signed radix-16 digits start from nibbles();
// C14: the sliding-window recoding starts from bits()): for every 32-byte encoding b (all 2^256), to_bytes(from_bytes(b)) == b,
// bits()[i] is bit i of b for all 256 positions, nibbles()[j] is the j-th 4-bit group of b for all 64 positions
fn check_scalar_views() {
    let b: [u8; 32] = kani::any();
    let s = Scalar::from_bytes(&b);
    let back = s.to_bytes();
    let mut i = 0;
    while i < 32 {
        assert!(back[i] == b[i], "to_bytes inverts from_bytes");
        i += 1;
    }
    let bits = s.bits();
    let i: usize = kani::any();
    kani::assume(i < 256);
    assert!(bits[i] == ((b[i / 8] >> (i % 8)) & 1) as i8, "bits()[i] is bit i of the encoding");
    let nib = s.nibbles();
    let j: usize = kani::any();
    kani::assume(j < 64);
    assert!(nib[j] == ((b[j / 2] >> (4 * (j % 2))) & 15) as i8, "nibbles()[j] is nibble j of the encoding");
    kani::cover!(true);
}
// @harness props=C13,C14,C15,C17 kind=full tier=quick build=default timeout=900
#[kani::proof]
#[kani::unwind(258)]
fn scalar_views_are_the_encoding() { check_scalar_views() }
// @harness props=C13,C14,C17 kind=full tier=quick build=force32 timeout=900
#[kani::proof]
#[kani::unwind(258)]
fn scalar_views_are_the_encoding_32() { check_scalar_views() }

// ---- linear field operations on decoded elements, both builds: (a + b), (a - b), (-a) encode to the canonical value of the
// sum / difference / negation modulo p = 2^255 - 19, computed byte-wise in the harness (33-byte accumulators); a chain of two
// operations is included because results are not re-normalised between operations
fn canon_u(v: &[u8; 33]) -> [u8; 32] {
    // v < 4p: subtract p while >= p (at most three times), byte-wise
    let mut x = *v;
    let mut round = 0;
    while round < 3 {
        let mut ge = x[32] != 0;
        if !ge {
            ge = true;
            let mut i = 32;
            while i > 0 {
                i -= 1;
                if x[i] < P[i] {
                    ge = false;
                    break;
                }
                if x[i] > P[i] {
                    break;
                }
            }
        }
        if ge {
            let mut borrow = 0i16;
            let mut j = 0;
            while j < 33 {
                let pj = if j < 32 { P[j] as i16 } else { 0 };
                let d = x[j] as i16 - pj - borrow;
                if d < 0 {
                    x[j] = (d + 256) as u8;
                    borrow = 1;
                } else {
                    x[j] = d as u8;
                    borrow = 0;
                }
                j += 1;
            }
        }
        round += 1;
    }
    let mut o = [0u8; 32];
    let mut i = 0;
    while i < 32 {
        o[i] = x[i];
        i += 1;
    }
    o
}
fn add33(a: &[u8; 32], b: &[u8; 32]) -> [u8; 33] {
    let mut o = [0u8; 33];
    let mut c = 0u16;
    let mut i = 0;
    while i < 32 {
        let t = a[i] as u16 + b[i] as u16 + c;
        o[i] = t as u8;
        c = t >> 8;
        i += 1;
    }
    o[32] = c as u8;
    o
}
/// p - a for canonical a (a < p), as 32 bytes (p when a = 0)
fn p_minus(a: &[u8; 32]) -> [u8; 32] {
    let mut o = [0u8; 32];
    let mut borrow = 0i16;
    let mut j = 0;
    while j < 32 {
        let d = P[j] as i16 - a[j] as i16 - borrow;
        if d < 0 {
            o[j] = (d + 256) as u8;
            borrow = 1;
        } else {
            o[j] = d as u8;
            borrow = 0;
        }
        j += 1;
    }
    o
}
fn expect_eq(got: &[u8; 32], want: &[u8; 32]) {
    let mut i = 0;
    while i < 32 {
        assert!(got[i] == want[i], "canonical encoding of the field result");
        i += 1;
    }
}
fn check_add() {
    let xb: [u8; 32] = kani::any();
    let yb: [u8; 32] = kani::any();
    let (x, y) = (Fe::from_bytes(&xb), Fe::from_bytes(&yb));
    let (cx, cy) = (spec_canon(&xb), spec_canon(&yb));
    expect_eq(&(&x + &y).to_bytes(), &canon_u(&add33(&cx, &cy)));
    kani::cover!(true);
}
fn check_sub() {
    let xb: [u8; 32] = kani::any();
    let yb: [u8; 32] = kani::any();
    let (x, y) = (Fe::from_bytes(&xb), Fe::from_bytes(&yb));
    let (cx, cy) = (spec_canon(&xb), spec_canon(&yb));
    let ny = p_minus(&cy);
    expect_eq(&(&x - &y).to_bytes(), &canon_u(&add33(&cx, &ny)));
    kani::cover!(true);
}
fn check_neg() {
    let yb: [u8; 32] = kani::any();
    let y = Fe::from_bytes(&yb);
    let ny = p_minus(&spec_canon(&yb));
    expect_eq(&(-&y).to_bytes(), &canon_u(&add33(&[0u8; 32], &ny)));
    kani::cover!(true);
}
// (the 64-bit backend's add / sub / neg are proved for all bounded limb vectors in the Verus unit fe64; these harnesses give the
// 32-bit backend the same statement on decoded elements)
// @harness props=C17 kind=full tier=quick build=force32 timeout=1200
#[kani::proof]
#[kani::unwind(34)]
fn fe_add_is_field_add_32() { check_add() }
// @harness props=C17 kind=full tier=thorough build=force32 timeout=2400
#[kani::proof]
#[kani::unwind(34)]
fn fe_sub_is_field_sub_32() { check_sub() }
// @harness props=C17 kind=full tier=quick build=force32 timeout=1200
#[kani::proof]
#[kani::unwind(34)]
fn fe_neg_is_field_neg_32() { check_neg() }

// A bounded harness for the sliding-window recoding `slide()` (scalars below 2^24) and a table-lookup harness for
// `GePrecomp::select` were tried and removed: CBMC runs out of memory on both (data-dependent nested loops unwound 256 times;
// a symbolic index into the 32 x 8 x 3 field-element table).  Both stay inside the assumed group layer.
