//! host: src/hashing/sha3.rs
//! Contract of `Engine::finalize` (contract-only stub of the Verus unit sha3): for every absorb offset below the rate it
//! hands `process` exactly the multi-rate padding with the domain-separation bits - first byte 0x06 (SHA-3) / 0x01 (Keccak),
//! zeros, last byte |= 0x80, length rate - offset - and clears can_absorb.  the state it is XORed into is observed at the permutation (`keccak_f` replaced by a recorder), starting from the zero state.
//! Bounded: the boundary offsets {0, 1, rate-2, rate-1} of each of the eight instantiations in the crate (every offset in one
//! harness exceeded CBMC's symbolic execution budget: measured > 5 min per instantiation).
use super::*;

static mut BLOCK: [u8; 200] = [0; 200];
static mut CALLS: usize = 0;
fn rec_kf(state: &mut [u8; B]) {
    unsafe {
        BLOCK = *state;
        CALLS += 1;
    }
}
fn check_pad<const DL: usize, const DS: usize>() {
    let rate = B - 2 * DL;
    // boundary offsets (the padding logic has no other input): empty block, one byte in, two bytes / one byte of room
    check_pad_at::<DL, DS>(0);
    check_pad_at::<DL, DS>(1);
    check_pad_at::<DL, DS>(rate - 2);
    check_pad_at::<DL, DS>(rate - 1);
    kani::cover!(true);
}
fn check_pad_at<const DL: usize, const DS: usize>(off: usize) {
    let rate = B - 2 * DL;
    unsafe { CALLS = 0; }
    let mut e = Engine::<DL, DS>::new();
    e.offset = off;
    e.finalize();
    assert!(!e.can_absorb && e.offset == 0, "padding completes the block");
    let first: u8 = if DS == 2 { 0x06 } else { 0x01 };
    let plen = rate - off;
    unsafe {
        assert!(CALLS == 1, "exactly one permutation");
        let mut i = 0;
        while i < 200 {
            let want = if i < off || i >= rate { 0 }
                else if plen == 1 { first | 0x80 } else if i == off { first } else if i == rate - 1 { 0x80 } else { 0 };
            assert!(BLOCK[i] == want, "state XOR padding");
            i += 1;
        }
    }
}
// @harness props=C01,C02 kind=bounded bound=offsets{0,1,rate-2,rate-1} tier=quick timeout=600 pairs=finalize
#[kani::proof]
#[kani::stub(keccak_f, rec_kf)]
#[kani::unwind(202)]
fn sha3_finalize_pad_224() { check_pad::<28, 2>() }
// @harness props=C01,C02 kind=bounded bound=offsets{0,1,rate-2,rate-1} tier=quick timeout=600 pairs=finalize
#[kani::proof]
#[kani::stub(keccak_f, rec_kf)]
#[kani::unwind(202)]
fn sha3_finalize_pad_256() { check_pad::<32, 2>() }
// @harness props=C01,C02 kind=bounded bound=offsets{0,1,rate-2,rate-1} tier=quick timeout=600 pairs=finalize
#[kani::proof]
#[kani::stub(keccak_f, rec_kf)]
#[kani::unwind(202)]
fn sha3_finalize_pad_384() { check_pad::<48, 2>() }
// @harness props=C01,C02 kind=bounded bound=offsets{0,1,rate-2,rate-1} tier=quick timeout=600 pairs=finalize
#[kani::proof]
#[kani::stub(keccak_f, rec_kf)]
#[kani::unwind(202)]
fn sha3_finalize_pad_512() { check_pad::<64, 2>() }
// @harness props=C01,C02 kind=bounded bound=offsets{0,1,rate-2,rate-1} tier=quick timeout=600 pairs=finalize
#[kani::proof]
#[kani::stub(keccak_f, rec_kf)]
#[kani::unwind(202)]
fn keccak_finalize_pad_224() { check_pad::<28, 0>() }
// @harness props=C01,C02 kind=bounded bound=offsets{0,1,rate-2,rate-1} tier=quick timeout=600 pairs=finalize
#[kani::proof]
#[kani::stub(keccak_f, rec_kf)]
#[kani::unwind(202)]
fn keccak_finalize_pad_256() { check_pad::<32, 0>() }
// @harness props=C01,C02 kind=bounded bound=offsets{0,1,rate-2,rate-1} tier=quick timeout=600 pairs=finalize
#[kani::proof]
#[kani::stub(keccak_f, rec_kf)]
#[kani::unwind(202)]
fn keccak_finalize_pad_384() { check_pad::<48, 0>() }
// @harness props=C01,C02 kind=bounded bound=offsets{0,1,rate-2,rate-1} tier=quick timeout=600 pairs=finalize
#[kani::proof]
#[kani::stub(keccak_f, rec_kf)]
#[kani::unwind(202)]
fn keccak_finalize_pad_512() { check_pad::<64, 0>() }
