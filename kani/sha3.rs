//! host: src/hashing/sha3.rs
//! Contract of `Engine::finalize` (contract-only stub of the Verus unit sha3): for every absorb offset below the rate it
//! hands `process` exactly the multi-rate padding with the domain-separation bits - first byte 0x06 (SHA-3) / 0x01 (Keccak),
//! zeros, last byte |= 0x80, length rate - offset - and clears can_absorb.  the state it is XORed into is observed at the permutation (`keccak_f` replaced by a recorder), starting from the zero state.
//! Bounded: the boundary offsets {0, 1, rate-2, rate-1} of each of the eight instantiations in the crate (every offset in one
//! harness exceeded CBMC's symbolic execution budget: measured > 5 min per instantiation).
use super::*;

static mut BLOCK: [u8; 200] = [0; 200];
static mut CALLS: usize = 0;
fn rec_kf(state: &mut [u8; B]) {
    unsafe {
        BLOCK = *state;
        CALLS += 1;
    }
}
fn check_pad<const DL: usize, const DS: usize>() {
    let rate = B - 2 * DL;
    // boundary offsets (the padding logic has no other input): empty block, one byte in, two bytes / one byte of room
    check_pad_at::<DL, DS>(0);
    check_pad_at::<DL, DS>(1);
    check_pad_at::<DL, DS>(rate - 2);
    check_pad_at::<DL, DS>(rate - 1);
    kani::cover!(true);
}
fn check_pad_at<const DL: usize, const DS: usize>(off: usize) {
    let rate = B - 2 * DL;
    unsafe { CALLS = 0; }
    let mut e = Engine::<DL, DS>::new();
    e.offset = off;
    e.finalize();
    assert!(!e.can_absorb && e.offset == 0, "padding completes the block");
    let first: u8 = if DS == 2 { 0x06 } else { 0x01 };
    let plen = rate - off;
    unsafe {
        assert!(CALLS == 1, "exactly one permutation");
        let mut i = 0;
        while i < 200 {
            let want = if i < off || i >= rate { 0 }
                else if plen == 1 { first | 0x80 } else if i == off { first } else if i == rate - 1 { 0x80 } else { 0 };
            assert!(BLOCK[i] == want, "state XOR padding");
            i += 1;
        }
    }
}
// @harness props=C01,C02 kind=bounded bound=offsets{0,1,rate-2,rate-1} tier=quick timeout=600 pairs=finalize
#[kani::proof]
#[kani::stub(keccak_f, rec_kf)]
#[kani::unwind(202)]
fn sha3_finalize_pad_224() { check_pad::<28, 2>() }
// @harness props=C01,C02 kind=bounded bound=offsets{0,1,rate-2,rate-1} tier=quick timeout=600 pairs=finalize
#[kani::proof]
#[kani::stub(keccak_f, rec_kf)]
#[kani::unwind(202)]
fn sha3_finalize_pad_256() { check_pad::<32, 2>() }
// @harness props=C01,C02 kind=bounded bound=offsets{0,1,rate-2,rate-1} tier=quick timeout=600 pairs=finalize
#[kani::proof]
#[kani::stub(keccak_f, rec_kf)]
#[kani::unwind(202)]
fn sha3_finalize_pad_384() { check_pad::<48, 2>() }
// @harness props=C01,C02 kind=bounded bound=offsets{0,1,rate-2,rate-1} tier=quick timeout=600 pairs=finalize
#[kani::proof]
#[kani::stub(keccak_f, rec_kf)]
#[kani::unwind(202)]
fn sha3_finalize_pad_512() { check_pad::<64, 2>() }
// @harness props=C01,C02 kind=bounded bound=offsets{0,1,rate-2,rate-1} tier=quick timeout=600 pairs=finalize
#[kani::proof]
#[kani::stub(keccak_f, rec_kf)]
#[kani::unwind(202)]
fn keccak_finalize_pad_224() { check_pad::<28, 0>() }
// @harness props=C01,C02 kind=bounded bound=offsets{0,1,rate-2,rate-1} tier=quick timeout=600 pairs=finalize
#[kani::proof]
#[kani::stub(keccak_f, rec_kf)]
#[kani::unwind(202)]
fn keccak_finalize_pad_256() { check_pad::<32, 0>() }
// @harness props=C01,C02 kind=bounded bound=offsets{0,1,rate-2,rate-1} tier=quick timeout=600 pairs=finalize
#[kani::proof]
#[kani::stub(keccak_f, rec_kf)]
#[kani::unwind(202)]
fn keccak_finalize_pad_384() { check_pad::<48, 0>() }
// @harness props=C01,C02 kind=bounded bound=offsets{0,1,rate-2,rate-1} tier=quick timeout=600 pairs=finalize
#[kani::proof]
#[kani::stub(keccak_f, rec_kf)]
#[kani::unwind(202)]
fn keccak_finalize_pad_512() { check_pad::<64, 0>() }

// ---- Keccak-f[1600] against FIPS 202 3.2 written as the standard writes it (5 x 5 lanes A[x][y], rho offsets from the
// (t+1)(t+2)/2 walk, pi as A'[y][2x+3y] = A[x][y], round constants from the LFSR rc(t)); complete over all 2^1600 states.
// The unbounded statement is the Verus contract of `keccak_f` (unit sha3); this harness gives a replayable witness.
fn rc_bit(t: usize) -> u64 {
    // FIPS 202 algorithm 5: rc(t) from the LFSR x^8 + x^6 + x^5 + x^4 + 1
    let mut r: u16 = 1;
    let mut i = 0;
    while i < t % 255 {
        r <<= 1;
        if r & 0x100 != 0 {
            r ^= 0x171;
        }
        i += 1;
    }
    (r & 1) as u64
}
fn fips_keccak_f(a: &mut [[u64; 5]; 5]) {
    // a[x][y]
    let mut rho = [[0u32; 5]; 5];
    let (mut x, mut y) = (1usize, 0usize);
    let mut t = 0;
    while t < 24 {
        rho[x][y] = (((t + 1) * (t + 2) / 2) % 64) as u32;
        let nx = y;
        let ny = (2 * x + 3 * y) % 5;
        x = nx;
        y = ny;
        t += 1;
    }
    let mut ir = 0;
    while ir < 24 {
        // theta
        let mut c = [0u64; 5];
        let mut x = 0;
        while x < 5 {
            c[x] = a[x][0] ^ a[x][1] ^ a[x][2] ^ a[x][3] ^ a[x][4];
            x += 1;
        }
        let mut x = 0;
        while x < 5 {
            let d = c[(x + 4) % 5] ^ c[(x + 1) % 5].rotate_left(1);
            let mut y = 0;
            while y < 5 {
                a[x][y] ^= d;
                y += 1;
            }
            x += 1;
        }
        // rho and pi
        let mut b = [[0u64; 5]; 5];
        let mut x = 0;
        while x < 5 {
            let mut y = 0;
            while y < 5 {
                b[y][(2 * x + 3 * y) % 5] = a[x][y].rotate_left(rho[x][y]);
                y += 1;
            }
            x += 1;
        }
        // chi
        let mut x = 0;
        while x < 5 {
            let mut y = 0;
            while y < 5 {
                a[x][y] = b[x][y] ^ (!b[(x + 1) % 5][y] & b[(x + 2) % 5][y]);
                y += 1;
            }
            x += 1;
        }
        // iota
        let mut rc = 0u64;
        let mut j = 0;
        while j <= 6 {
            rc |= rc_bit(j + 7 * ir) << ((1usize << j) - 1);
            j += 1;
        }
        a[0][0] ^= rc;
        ir += 1;
    }
}
// @attempt (not run in any tier: verified once, standalone, in 32 min with kani-driver peaking near 60 GB; inside the thorough batch the driver is OOM-killed) props=C01 kind=full tier=thorough timeout=3000
#[kani::proof]
#[kani::unwind(256)]
fn keccak_f_matches_fips202() {
    let st0: [u8; B] = kani::any();
    let mut st = st0;
    keccak_f(&mut st);
    let mut a = [[0u64; 5]; 5];
    let mut y = 0;
    while y < 5 {
        let mut x = 0;
        while x < 5 {
            let mut w = 0u64;
            let mut j = 0;
            while j < 8 {
                w |= (st0[8 * (5 * y + x) + j] as u64) << (8 * j);
                j += 1;
            }
            a[x][y] = w;
            x += 1;
        }
        y += 1;
    }
    fips_keccak_f(&mut a);
    let k: usize = kani::any();
    kani::assume(k < 200);
    let lane = k / 8;
    assert!(st[k] == (a[lane % 5][lane / 5] >> (8 * (k % 8))) as u8, "state byte after Keccak-f");
    kani::cover!(true);
}
