//! host: src/pbkdf2.rs
//! C20 (loud refusal) for misuse paths that no other module covers: each call below is outside the documented domain and must
//! panic (a run that returns is the violation).  Inputs concrete or over small symbolic ranges; the refusing checks are the first
//! thing the callee does.
use super::*;
use crate::digest::Digest;

// PBKDF2 with an iteration count of zero
// @harness props=C20,C10 kind=full tier=quick expect=refuse timeout=600
#[kani::proof]
#[kani::unwind(70)]
fn pbkdf2_refuses_zero_iterations() {
    let mut mac = crate::hmac::Hmac::new(crate::sha1::Sha1::new(), &[1u8, 2, 3]);
    let mut out = [0u8; 4];
    pbkdf2(&mut mac, &[9u8; 2], 0, &mut out);
    kani::cover!(true);
}
// Salsa20 / XSalsa20 keys that are neither 16 nor 32 bytes
// @harness props=C20,C03 kind=bounded bound=keylen<=40 tier=quick expect=refuse timeout=600
#[kani::proof]
#[kani::unwind(66)]
fn salsa20_refuses_bad_key_length() {
    let key = [3u8; 40];
    let kl: usize = kani::any();
    kani::assume(kl <= 40 && kl != 16 && kl != 32);
    let _ = crate::salsa20::Salsa20::new(&key[..kl], &[0u8; 8]);
    kani::cover!(true);
}
// legacy digest objects: input after result without reset
// @harness props=C20,C09 kind=full tier=quick expect=refuse timeout=900
#[kani::proof]
#[kani::unwind(130)]
fn legacy_sha1_refuses_input_after_result() {
    let mut d = crate::sha1::Sha1::new();
    let mut out = [0u8; 20];
    d.result(&mut out);
    d.input(&[1u8]);
    kani::cover!(true);
}
// @harness props=C20,C09 kind=full tier=quick expect=refuse timeout=900
#[kani::proof]
#[kani::unwind(130)]
fn legacy_sha256_refuses_result_twice() {
    let mut d = crate::sha2::Sha256::new();
    let mut out = [0u8; 32];
    d.result(&mut out);
    d.result(&mut out);
    kani::cover!(true);
}
