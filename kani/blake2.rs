//! host: src/hashing/blake2/mod.rs
//! BLAKE2 byte counters (C20): `increment_counter` is addition modulo 2^64 (BLAKE2s) / 2^128 (BLAKE2b) on the two counter
//! words, for every counter value and every increment, and never panics - in particular when the low word wraps
//! (2^32 resp. 2^64 bytes hashed).  Complete (loop-free, full-domain) proofs; same contract text as the Verus units
//! blake2b / blake2s.
use super::*;

// @harness props=C20,C01,C02 kind=full tier=quick pairs=increment_counter
#[kani::proof]
fn blake2b_increment_counter() {
    let t: [u64; 2] = kani::any();
    let inc: u64 = kani::any();
    let h: [u64; 8] = kani::any();
    let mut e = EngineB { h, t };
    e.increment_counter(inc);
    let old = (t[0] as u128) | ((t[1] as u128) << 64);
    let new = (e.t[0] as u128) | ((e.t[1] as u128) << 64);
    assert!(new == old.wrapping_add(inc as u128));
    assert!(e.h == h);
    kani::cover!(true);
}
// @harness props=C20,C01,C02 kind=full tier=quick pairs=increment_counter
#[kani::proof]
fn blake2s_increment_counter() {
    let t: [u32; 2] = kani::any();
    let inc: u32 = kani::any();
    let h: [u32; 8] = kani::any();
    let mut e = EngineS { h, t };
    e.increment_counter(inc);
    let old = (t[0] as u64) | ((t[1] as u64) << 32);
    let new = (e.t[0] as u64) | ((e.t[1] as u64) << 32);
    assert!(new == old.wrapping_add(inc as u64));
    assert!(e.h == h);
    kani::cover!(true);
}
// parameter word: h[0] = IV[0] ^ 0x01010000 ^ (keylen << 8) ^ outlen for every legal (outlen, keylen); illegal ones refused
// @harness props=C01,C20 kind=full tier=quick
#[kani::proof]
#[kani::unwind(9)]
fn blake2_engine_new_param_word() {
    let o: usize = kani::any();
    let k: usize = kani::any();
    kani::assume(o >= 1 && o <= 64 && k <= 64);
    let e = EngineB::new(o, k);
    assert!(e.h[0] == 0x6a09e667f3bcc908u64 ^ 0x01010000 ^ ((k as u64) << 8) ^ (o as u64));
    assert!(e.h[1] == 0xbb67ae8584caa73b && e.h[7] == 0x5be0cd19137e2179 && e.t[0] == 0 && e.t[1] == 0);
    if o <= 32 && k <= 32 {
        let s = EngineS::new(o, k);
        assert!(s.h[0] == 0x6A09E667u32 ^ 0x01010000 ^ ((k as u32) << 8) ^ (o as u32));
        assert!(s.h[1] == 0xBB67AE85 && s.h[7] == 0x5BE0CD19 && s.t[0] == 0 && s.t[1] == 0);
    }
    kani::cover!(true);
}
// @harness props=C20 kind=full tier=quick expect=refuse
#[kani::proof]
fn blake2b_engine_new_refuses_bad_sizes() {
    let o: usize = kani::any();
    let k: usize = kani::any();
    kani::assume(o == 0 || o > 64 || k > 64);
    let _ = EngineB::new(o, k);
    kani::cover!(true);
}
// @harness props=C20 kind=full tier=quick expect=refuse
#[kani::proof]
fn blake2s_engine_new_refuses_bad_sizes() {
    let o: usize = kani::any();
    let k: usize = kani::any();
    kani::assume(o == 0 || o > 32 || k > 32);
    let _ = EngineS::new(o, k);
    kani::cover!(true);
}

// ---- the compression functions against RFC 7693 3.2 written out with its loops (message schedule by SIGMA, G on columns then
// diagonals, counter words into v12/v13, inverted v14 on the last block, feed-forward h ^= v[i] ^ v[i+8]); complete over all
// chaining values, counters, blocks and both flag values (loop bounds are constants; nothing is bounded)
const RFC_SIGMA: [[usize; 16]; 10] = [
    [0, 1, 2, 3, 4, 5, 6, 7, 8, 9, 10, 11, 12, 13, 14, 15],
    [14, 10, 4, 8, 9, 15, 13, 6, 1, 12, 0, 2, 11, 7, 5, 3],
    [11, 8, 12, 0, 5, 2, 15, 13, 10, 14, 3, 6, 7, 1, 9, 4],
    [7, 9, 3, 1, 13, 12, 11, 14, 2, 6, 5, 10, 4, 0, 15, 8],
    [9, 0, 5, 7, 2, 4, 10, 15, 14, 1, 11, 12, 6, 8, 3, 13],
    [2, 12, 6, 10, 0, 11, 8, 3, 4, 13, 7, 5, 15, 14, 1, 9],
    [12, 5, 1, 15, 14, 13, 4, 10, 0, 7, 6, 3, 9, 2, 8, 11],
    [13, 11, 7, 14, 12, 1, 3, 9, 5, 0, 15, 4, 8, 6, 2, 10],
    [6, 15, 14, 9, 11, 3, 0, 8, 12, 2, 13, 7, 1, 4, 10, 5],
    [10, 2, 8, 4, 7, 6, 1, 5, 15, 11, 9, 14, 3, 12, 13, 0],
];
const RFC_IV_B: [u64; 8] = [
    0x6a09e667f3bcc908, 0xbb67ae8584caa73b, 0x3c6ef372fe94f82b, 0xa54ff53a5f1d36f1, 0x510e527fade682d1, 0x9b05688c2b3e6c1f,
    0x1f83d9abfb41bd6b, 0x5be0cd19137e2179,
];
const RFC_IV_S: [u32; 8] = [0x6A09E667, 0xBB67AE85, 0x3C6EF372, 0xA54FF53A, 0x510E527F, 0x9B05688C, 0x1F83D9AB, 0x5BE0CD19];
fn rfc_g_b(v: &mut [u64; 16], a: usize, b: usize, c: usize, d: usize, x: u64, y: u64) {
    v[a] = v[a].wrapping_add(v[b]).wrapping_add(x);
    v[d] = (v[d] ^ v[a]).rotate_right(32);
    v[c] = v[c].wrapping_add(v[d]);
    v[b] = (v[b] ^ v[c]).rotate_right(24);
    v[a] = v[a].wrapping_add(v[b]).wrapping_add(y);
    v[d] = (v[d] ^ v[a]).rotate_right(16);
    v[c] = v[c].wrapping_add(v[d]);
    v[b] = (v[b] ^ v[c]).rotate_right(63);
}
fn rfc_f_b(h: &[u64; 8], t: u128, blk: &[u8; 128], last: bool) -> [u64; 8] {
    let mut m = [0u64; 16];
    let mut i = 0;
    while i < 16 {
        let mut w = 0u64;
        let mut j = 0;
        while j < 8 {
            w |= (blk[8 * i + j] as u64) << (8 * j);
            j += 1;
        }
        m[i] = w;
        i += 1;
    }
    let mut v = [0u64; 16];
    let mut i = 0;
    while i < 8 {
        v[i] = h[i];
        v[i + 8] = RFC_IV_B[i];
        i += 1;
    }
    v[12] ^= t as u64;
    v[13] ^= (t >> 64) as u64;
    if last {
        v[14] = !v[14];
    }
    let mut r = 0;
    while r < 12 {
        let s = &RFC_SIGMA[r % 10];
        rfc_g_b(&mut v, 0, 4, 8, 12, m[s[0]], m[s[1]]);
        rfc_g_b(&mut v, 1, 5, 9, 13, m[s[2]], m[s[3]]);
        rfc_g_b(&mut v, 2, 6, 10, 14, m[s[4]], m[s[5]]);
        rfc_g_b(&mut v, 3, 7, 11, 15, m[s[6]], m[s[7]]);
        rfc_g_b(&mut v, 0, 5, 10, 15, m[s[8]], m[s[9]]);
        rfc_g_b(&mut v, 1, 6, 11, 12, m[s[10]], m[s[11]]);
        rfc_g_b(&mut v, 2, 7, 8, 13, m[s[12]], m[s[13]]);
        rfc_g_b(&mut v, 3, 4, 9, 14, m[s[14]], m[s[15]]);
        r += 1;
    }
    let mut o = [0u64; 8];
    let mut i = 0;
    while i < 8 {
        o[i] = h[i] ^ v[i] ^ v[i + 8];
        i += 1;
    }
    o
}
// @harness props=C01 kind=full tier=thorough timeout=3000
#[kani::proof]
#[kani::unwind(17)]
fn blake2b_compress_matches_rfc() {
    let h0: [u64; 8] = kani::any();
    let t0: [u64; 2] = kani::any();
    let blk: [u8; 128] = kani::any();
    let last: bool = kani::any();
    let mut h = h0;
    let mut t = t0;
    reference::compress_b(&mut h, &mut t, &blk, if last { LastBlock::Yes } else { LastBlock::No });
    let want = rfc_f_b(&h0, (t0[0] as u128) | ((t0[1] as u128) << 64), &blk, last);
    let mut i = 0;
    while i < 8 {
        assert!(h[i] == want[i], "compress_b == F");
        i += 1;
    }
    assert!(t[0] == t0[0] && t[1] == t0[1]);
    kani::cover!(true);
}
fn rfc_g_s(v: &mut [u32; 16], a: usize, b: usize, c: usize, d: usize, x: u32, y: u32) {
    v[a] = v[a].wrapping_add(v[b]).wrapping_add(x);
    v[d] = (v[d] ^ v[a]).rotate_right(16);
    v[c] = v[c].wrapping_add(v[d]);
    v[b] = (v[b] ^ v[c]).rotate_right(12);
    v[a] = v[a].wrapping_add(v[b]).wrapping_add(y);
    v[d] = (v[d] ^ v[a]).rotate_right(8);
    v[c] = v[c].wrapping_add(v[d]);
    v[b] = (v[b] ^ v[c]).rotate_right(7);
}
fn rfc_f_s(h: &[u32; 8], t: u64, blk: &[u8; 64], last: bool) -> [u32; 8] {
    let mut m = [0u32; 16];
    let mut i = 0;
    while i < 16 {
        let mut w = 0u32;
        let mut j = 0;
        while j < 4 {
            w |= (blk[4 * i + j] as u32) << (8 * j);
            j += 1;
        }
        m[i] = w;
        i += 1;
    }
    let mut v = [0u32; 16];
    let mut i = 0;
    while i < 8 {
        v[i] = h[i];
        v[i + 8] = RFC_IV_S[i];
        i += 1;
    }
    v[12] ^= t as u32;
    v[13] ^= (t >> 32) as u32;
    if last {
        v[14] = !v[14];
    }
    let mut r = 0;
    while r < 10 {
        let s = &RFC_SIGMA[r];
        rfc_g_s(&mut v, 0, 4, 8, 12, m[s[0]], m[s[1]]);
        rfc_g_s(&mut v, 1, 5, 9, 13, m[s[2]], m[s[3]]);
        rfc_g_s(&mut v, 2, 6, 10, 14, m[s[4]], m[s[5]]);
        rfc_g_s(&mut v, 3, 7, 11, 15, m[s[6]], m[s[7]]);
        rfc_g_s(&mut v, 0, 5, 10, 15, m[s[8]], m[s[9]]);
        rfc_g_s(&mut v, 1, 6, 11, 12, m[s[10]], m[s[11]]);
        rfc_g_s(&mut v, 2, 7, 8, 13, m[s[12]], m[s[13]]);
        rfc_g_s(&mut v, 3, 4, 9, 14, m[s[14]], m[s[15]]);
        r += 1;
    }
    let mut o = [0u32; 8];
    let mut i = 0;
    while i < 8 {
        o[i] = h[i] ^ v[i] ^ v[i + 8];
        i += 1;
    }
    o
}
// @harness props=C01 kind=full tier=thorough timeout=3000
#[kani::proof]
#[kani::unwind(17)]
fn blake2s_compress_matches_rfc() {
    let h0: [u32; 8] = kani::any();
    let t0: [u32; 2] = kani::any();
    let blk: [u8; 64] = kani::any();
    let last: bool = kani::any();
    let mut h = h0;
    let mut t = t0;
    reference::compress_s(&mut h, &mut t, &blk, if last { LastBlock::Yes } else { LastBlock::No });
    let want = rfc_f_s(&h0, (t0[0] as u64) | ((t0[1] as u64) << 32), &blk, last);
    let mut i = 0;
    while i < 8 {
        assert!(h[i] == want[i], "compress_s == F");
        i += 1;
    }
    assert!(t[0] == t0[0] && t[1] == t0[1]);
    kani::cover!(true);
}
