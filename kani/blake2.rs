//! host: src/hashing/blake2/mod.rs
//! BLAKE2 byte counters (C20): `increment_counter` is addition modulo 2^64 (BLAKE2s) / 2^128 (BLAKE2b) on the two counter
//! words, for every counter value and every increment, and never panics - in particular when the low word wraps
//! (2^32 resp. 2^64 bytes hashed).  Complete (loop-free, full-domain) proofs; same contract text as the Verus units
//! blake2b / blake2s.
use super::*;

// @harness props=C20,C01,C02 kind=full tier=quick pairs=increment_counter
#[kani::proof]
fn blake2b_increment_counter() {
    let t: [u64; 2] = kani::any();
    let inc: u64 = kani::any();
    let h: [u64; 8] = kani::any();
    let mut e = EngineB { h, t };
    e.increment_counter(inc);
    let old = (t[0] as u128) | ((t[1] as u128) << 64);
    let new = (e.t[0] as u128) | ((e.t[1] as u128) << 64);
    assert!(new == old.wrapping_add(inc as u128));
    assert!(e.h == h);
    kani::cover!(true);
}
// @harness props=C20,C01,C02 kind=full tier=quick pairs=increment_counter
#[kani::proof]
fn blake2s_increment_counter() {
    let t: [u32; 2] = kani::any();
    let inc: u32 = kani::any();
    let h: [u32; 8] = kani::any();
    let mut e = EngineS { h, t };
    e.increment_counter(inc);
    let old = (t[0] as u64) | ((t[1] as u64) << 32);
    let new = (e.t[0] as u64) | ((e.t[1] as u64) << 32);
    assert!(new == old.wrapping_add(inc as u64));
    assert!(e.h == h);
    kani::cover!(true);
}
// parameter word: h[0] = IV[0] ^ 0x01010000 ^ (keylen << 8) ^ outlen for every legal (outlen, keylen); illegal ones refused
// @harness props=C01,C20 kind=full tier=quick
#[kani::proof]
#[kani::unwind(9)]
fn blake2_engine_new_param_word() {
    let o: usize = kani::any();
    let k: usize = kani::any();
    kani::assume(o >= 1 && o <= 64 && k <= 64);
    let e = EngineB::new(o, k);
    assert!(e.h[0] == 0x6a09e667f3bcc908u64 ^ 0x01010000 ^ ((k as u64) << 8) ^ (o as u64));
    assert!(e.h[1] == 0xbb67ae8584caa73b && e.h[7] == 0x5be0cd19137e2179 && e.t[0] == 0 && e.t[1] == 0);
    if o <= 32 && k <= 32 {
        let s = EngineS::new(o, k);
        assert!(s.h[0] == 0x6A09E667u32 ^ 0x01010000 ^ ((k as u32) << 8) ^ (o as u32));
        assert!(s.h[1] == 0xBB67AE85 && s.h[7] == 0x5BE0CD19 && s.t[0] == 0 && s.t[1] == 0);
    }
    kani::cover!(true);
}
// @harness props=C20 kind=full tier=quick expect=refuse
#[kani::proof]
fn blake2b_engine_new_refuses_bad_sizes() {
    let o: usize = kani::any();
    let k: usize = kani::any();
    kani::assume(o == 0 || o > 64 || k > 64);
    let _ = EngineB::new(o, k);
    kani::cover!(true);
}
// @harness props=C20 kind=full tier=quick expect=refuse
#[kani::proof]
fn blake2s_engine_new_refuses_bad_sizes() {
    let o: usize = kani::any();
    let k: usize = kani::any();
    kani::assume(o == 0 || o > 32 || k > 32);
    let _ = EngineS::new(o, k);
    kani::cover!(true);
}

// A full-domain miter of reference::compress_b / compress_s against RFC 7693 3.2 written with its loops was tried here and
// removed: goto-instrument (Kani 0.68's loop pass over the 768-statement unrolled function) needs more than 40 GB and is
// killed by the kernel before CBMC starts.  The compression functions stay ASSUMED equal to F (units/gen/blake2.tmpl).
