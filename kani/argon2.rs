//! host: src/kdf/argon2.rs
//! C11 (claimed conjuncts): memory geometry from (m, p), the reference-block index mapping of RFC 9106 3.4.2 for every
//! position and pseudo-random value, and the BlaMka permutation P of 3.6, each against the RFC text written out in the
//! harness; complete over their integer domains (loop-free).  The end-to-end function is not claimed (DESIGN.md C11).
use super::*;

// RFC 9106 3.2: m' = 4*p*floor(m / 4p) with m raised to 8p if smaller; lanes of q = m'/p blocks in 4 slices of q/4
// @harness props=C11,C20 kind=full tier=quick timeout=300
#[kani::proof]
fn argon2_memory_geometry() {
    let m: u32 = kani::any();
    let p: u32 = kani::any();
    kani::assume(p >= 1 && p < 0x1000000);
    let params = Params::argon2id().parallelism(p).unwrap().memory_kb(m).unwrap();
    let mm = if m < 8 * p { 8 * p } else { m };
    let mprime = 4 * p * (mm / (4 * p));
    assert!(params.parallelism.get() == p && params.memory_kb == mm);
    assert!(params.memory_blocks == mprime);
    assert!(params.lane_length == mprime / p && params.segment_length == mprime / p / 4);
    assert!(params.segment_length >= 2);
    // order of the two setters does not matter
    let q = Params::argon2id().memory_kb(m).unwrap().parallelism(p).unwrap();
    assert!(q.memory_blocks == mprime && q.lane_length == params.lane_length && q.segment_length == params.segment_length && q.memory_kb == mm);
    kani::cover!(true);
}
// invalid parameters are reported, never silently adjusted
// @harness props=C11,C20 kind=full tier=quick timeout=300
#[kani::proof]
fn argon2_params_reject_invalid() {
    let p: u32 = kani::any();
    let r = Params::argon2d().parallelism(p);
    assert!(r.is_err() == (p == 0 || p >= 0x1000000));
    let v: u32 = kani::any();
    assert!(Params::argon2d().version(v).is_err() == !(v == 0x13 || v == 0x10));
    let t: u32 = kani::any();
    assert!(Params::argon2d().iterations(t).is_err() == (t == 0));
    kani::cover!(true);
}
/// RFC 9106 3.4.2: size W of the reference area for the block at (pass r, slice s, index i in segment), then
/// x = J1^2 / 2^32, y = (W * x) / 2^32, zz = W - 1 - y, start = first block after the current slice (later passes), l' = (start + zz) mod q
fn spec_index_alpha(seg: u32, q: u32, pass: u32, slice: u32, index: u32, j1: u32, same_lane: bool) -> u32 {
    let finished = if pass == 0 { slice * seg } else { q - seg };       // blocks of the lane computed in finished slices
    let w: u64 = (if same_lane { finished + index - 1 } else if index == 0 { finished - 1 } else { finished }) as u64;
    let x = ((j1 as u64) * (j1 as u64)) >> 32;
    let y = (w * x) >> 32;
    let zz = w - 1 - y;
    let start: u64 = if pass != 0 && slice != 3 { ((slice + 1) * seg) as u64 } else { 0 };
    ((start + zz) % (q as u64)) as u32
}
// @harness props=C11,C20 kind=full tier=quick timeout=600
#[kani::proof]
fn argon2_index_alpha_matches_rfc() {
    let seg: u32 = kani::any();
    kani::assume(seg >= 2 && seg <= 0x3fff_ffff);           // 4 * seg fits a u32 (lane_length is a u32 in Params)
    let mut params = Params::argon2d();
    params.segment_length = seg;
    params.lane_length = 4 * seg;
    let pos = BlockPos { pass: kani::any(), lane: kani::any(), slice: kani::any(), index: kani::any() };
    let same_lane: bool = kani::any();
    kani::assume(pos.slice < 4 && pos.index < seg);
    // well-formed positions: the first two blocks of a lane are not computed this way; across lanes only finished slices exist
    kani::assume(!(pos.pass == 0 && pos.slice == 0) || (pos.index >= 2 && same_lane));
    let j1: u32 = kani::any();
    let got = index_alpha(&params, &pos, j1, same_lane);
    assert!(got < params.lane_length);
    assert!(got == spec_index_alpha(seg, 4 * seg, pos.pass, pos.slice, pos.index, j1, same_lane));
    kani::cover!(true);
}
/// RFC 9106 3.6: GB with the multiplication-hardened addition a + b + 2 * trunc(a) * trunc(b) mod 2^64 and rotations 32, 24, 16, 63
fn spec_gb(v: &mut [u64; 16], a: usize, b: usize, c: usize, d: usize) {
    fn f(x: u64, y: u64) -> u64 {
        x.wrapping_add(y).wrapping_add(2u64.wrapping_mul((x & 0xffff_ffff).wrapping_mul(y & 0xffff_ffff)))
    }
    v[a] = f(v[a], v[b]);
    v[d] = (v[d] ^ v[a]).rotate_right(32);
    v[c] = f(v[c], v[d]);
    v[b] = (v[b] ^ v[c]).rotate_right(24);
    v[a] = f(v[a], v[b]);
    v[d] = (v[d] ^ v[a]).rotate_right(16);
    v[c] = f(v[c], v[d]);
    v[b] = (v[b] ^ v[c]).rotate_right(63);
}
// @harness props=C11 kind=full tier=quick timeout=600
#[kani::proof]
#[kani::unwind(17)]
fn argon2_permutation_p_matches_rfc() {
    let v0: [u64; 16] = kani::any();
    let mut v = v0;
    {
        let [a0, a1, a2, a3, a4, a5, a6, a7, a8, a9, a10, a11, a12, a13, a14, a15] = &mut v;
        p(a0, a1, a2, a3, a4, a5, a6, a7, a8, a9, a10, a11, a12, a13, a14, a15);
    }
    let mut e = v0;
    spec_gb(&mut e, 0, 4, 8, 12);
    spec_gb(&mut e, 1, 5, 9, 13);
    spec_gb(&mut e, 2, 6, 10, 14);
    spec_gb(&mut e, 3, 7, 11, 15);
    spec_gb(&mut e, 0, 5, 10, 15);
    spec_gb(&mut e, 1, 6, 11, 12);
    spec_gb(&mut e, 2, 7, 8, 13);
    spec_gb(&mut e, 3, 4, 9, 14);
    let mut i = 0;
    while i < 16 {
        assert!(v[i] == e[i]);
        i += 1;
    }
    kani::cover!(true);
}
