//! host: src/kdf/argon2.rs
//! C11: contracts that the Verus unit `argon2` takes as contract-only stubs, on the real functions: the byte views of a block
//! (unsafe pointer casts; little-endian words), and the refusal of invalid parameters.  The algorithm itself (geometry, index
//! mapping, P, G, segment filling, H', H_0, the whole function) is proved by Verus against RFC 9106 (units/argon2.vtpl).
use super::*;

// invalid parameters are reported, never silently adjusted
// @harness props=C11,C20 kind=full tier=quick timeout=300
#[kani::proof]
fn argon2_params_reject_invalid() {
    let p: u32 = kani::any();
    let r = Params::argon2d().parallelism(p);
    assert!(r.is_err() == (p == 0 || p >= 0x1000000));
    let v: u32 = kani::any();
    assert!(Params::argon2d().version(v).is_err() == !(v == 0x13 || v == 0x10));
    let t: u32 = kani::any();
    assert!(Params::argon2d().iterations(t).is_err() == (t == 0));
    kani::cover!(true);
}
// Block::as_u8: byte k of the view is byte k % 8 (little-endian) of word k / 8
// @harness props=C11 kind=full tier=quick timeout=900
#[kani::proof]
#[kani::unwind(1026)]
fn argon2_block_as_u8_is_le_words() {
    let w: [u64; 128] = kani::any();
    let b = Block(w);
    let v = b.as_u8();
    assert!(v.len() == 1024);
    let mut k = 0;
    while k < 1024 {
        assert!(v[k] == (w[k / 8] >> (8 * (k % 8))) as u8);
        k += 1;
    }
    kani::cover!(true);
}
// Block::as_u8_mut: writing bytes through the view makes word i the little-endian value of bytes 8i..8i+8
// @harness props=C11 kind=full tier=quick timeout=900
#[kani::proof]
#[kani::unwind(1026)]
fn argon2_block_as_u8_mut_writes_le_words() {
    let mut b = Block::new();
    let bytes: [u8; 1024] = kani::any();
    {
        let v = b.as_u8_mut();
        let mut k = 0;
        while k < 1024 {
            v[k] = bytes[k];
            k += 1;
        }
    }
    let mut i = 0;
    while i < 128 {
        let mut e: u64 = 0;
        let mut j = 0;
        while j < 8 {
            e |= (bytes[8 * i + j] as u64) << (8 * j);
            j += 1;
        }
        assert!(b[i] == e);
        i += 1;
    }
    kani::cover!(true);
}
// Memory::new: p * q blocks, all zero (contract-only stub: vec![..; n].into_boxed_slice())
// @harness props=C11,C20 kind=bounded bound=m=8,p=1 tier=quick timeout=900
#[kani::proof]
#[kani::unwind(130)]
fn argon2_memory_new_is_zero() {
    let params = Params::argon2d().memory_kb(8).unwrap();
    let m = Memory::new(&params);
    assert!(m.blocks.len() == 8 && m.lane_length == 8);
    let i: usize = kani::any();
    let k: usize = kani::any();
    kani::assume(i < 8 && k < 128);
    assert!(m.blocks[i][k] == 0);
    kani::cover!(true);
}
