//! host: src/pbkdf2.rs
//! C10 for PBKDF2 and HKDF: the RFC *structure* (which bytes go into which PRF call in which order, where each call's output
//! lands, counters, truncation, XOR accumulation, the 255-block limit) with the PRF replaced by a tracing MAC / tiny digest
//! implementing the real traits, against RFC 8018 5.2 / RFC 5869 2.2-2.3 written out in the harness over the same PRF.
//! Bounded: concrete output lengths and iteration counts, symbolic salt / info / key material.
use super::*;
use crate::digest::Digest;
use crate::hkdf::{hkdf_expand, hkdf_extract};
use crate::mac::MacResult;

// ---- tracing MAC: the n-th raw_result since construction returns bytes that name n and fold in everything fed since reset
const OS: usize = 4;
struct TraceMac {
    calls: u8,
    acc: u8,
}
impl Mac for TraceMac {
    fn input(&mut self, data: &[u8]) {
        let mut i = 0;
        while i < data.len() {
            self.acc = self.acc.rotate_left(1) ^ data[i];
            i += 1;
        }
    }
    fn reset(&mut self) {
        self.acc = 0;
    }
    fn result(&mut self) -> MacResult {
        let mut o = [0u8; OS];
        self.raw_result(&mut o);
        MacResult::new(&o)
    }
    fn raw_result(&mut self, output: &mut [u8]) {
        assert!(output.len() == OS);
        self.calls += 1;
        let mut i = 0;
        while i < OS {
            output[i] = self.calls.wrapping_mul(16).wrapping_add(i as u8) ^ self.acc;
            i += 1;
        }
    }
    fn output_bytes(&self) -> usize {
        OS
    }
}
/// RFC 8018 5.2: T_i = U_1 ^ ... ^ U_c, U_1 = PRF(P, S | INT_BE32(i)), U_j = PRF(P, U_{j-1}); DK = T_1 | T_2 | ... truncated
fn spec_pbkdf2(salt: &[u8], c: u32, out: &mut [u8]) {
    let mut m = TraceMac { calls: 0, acc: 0 };
    let mut i: u32 = 1;
    let mut pos = 0;
    while pos < out.len() {
        let mut u = [0u8; OS];
        m.reset();
        m.input(salt);
        m.input(&i.to_be_bytes());
        m.raw_result(&mut u);
        let mut t = u;
        let mut j = 1;
        while j < c {
            let prev = u;
            m.reset();
            m.input(&prev);
            m.raw_result(&mut u);
            let mut k = 0;
            while k < OS {
                t[k] ^= u[k];
                k += 1;
            }
            j += 1;
        }
        let mut k = 0;
        while k < OS && pos < out.len() {
            out[pos] = t[k];
            pos += 1;
            k += 1;
        }
        i += 1;
    }
}
fn pbkdf2_case<const DK: usize>(c: u32) {
    let salt: [u8; 5] = kani::any();
    let mut got = [0u8; DK];
    let mut want = [0u8; DK];
    let mut m = TraceMac { calls: 0, acc: 0 };
    pbkdf2(&mut m, &salt, c, &mut got);
    spec_pbkdf2(&salt, c, &mut want);
    let mut i = 0;
    while i < DK {
        assert!(got[i] == want[i], "derived key byte");
        i += 1;
    }
    kani::cover!(true);
}
// @harness props=C10 kind=bounded bound=c=3,dkLen=10,os=4 tier=quick timeout=600
#[kani::proof]
#[kani::unwind(12)]
fn pbkdf2_structure_c3_dk10() { pbkdf2_case::<10>(3) }
// @harness props=C10 kind=bounded bound=c=1,dkLen=4,os=4 tier=quick timeout=600
#[kani::proof]
#[kani::unwind(12)]
fn pbkdf2_structure_c1_dk4() { pbkdf2_case::<4>(1) }
// @harness props=C10 kind=bounded bound=c=2,dkLen=5,os=4 tier=quick timeout=600
#[kani::proof]
#[kani::unwind(12)]
fn pbkdf2_structure_c2_dk5() { pbkdf2_case::<5>(2) }
// @harness props=C10 kind=bounded bound=c=4,dkLen=3,os=4 tier=thorough timeout=900
#[kani::proof]
#[kani::unwind(12)]
fn pbkdf2_structure_c4_dk3() { pbkdf2_case::<3>(4) }
// an iteration count of 0 is refused
// @harness props=C10,C20 kind=full tier=quick expect=refuse timeout=300
#[kani::proof]
#[kani::unwind(12)]
fn pbkdf2_refuses_zero_iterations() {
    let mut m = TraceMac { calls: 0, acc: 0 };
    let mut out = [0u8; 4];
    pbkdf2(&mut m, &[1, 2], 0, &mut out);
    kani::cover!(true);
}

// ---- tiny digest for HKDF (block size 4, output size 2; the code is generic in the digest)
#[derive(Clone)]
struct Tiny {
    fed: [u8; 24],
    n: usize,
    computed: bool,
}
fn tiny_h(m: &[u8]) -> [u8; 2] {
    let mut s = (3 * m.len()) as u8;
    let mut x = 0xa5u8;
    let mut i = 0;
    while i < m.len() {
        s = s.wrapping_add(m[i]);
        x ^= m[i];
        i += 1;
    }
    [s, x]
}
impl Tiny {
    fn new() -> Self {
        Tiny { fed: [0; 24], n: 0, computed: false }
    }
}
impl Digest for Tiny {
    fn input(&mut self, input: &[u8]) {
        assert!(!self.computed);
        let mut i = 0;
        while i < input.len() {
            self.fed[self.n] = input[i];
            self.n += 1;
            i += 1;
        }
    }
    fn result(&mut self, out: &mut [u8]) {
        assert!(!self.computed);
        self.computed = true;
        out.copy_from_slice(&tiny_h(&self.fed[..self.n]));
    }
    fn reset(&mut self) {
        self.n = 0;
        self.computed = false;
    }
    fn output_bits(&self) -> usize { 16 }
    fn block_size(&self) -> usize { 4 }
}
fn spec_hmac(key: &[u8], msg: &[u8]) -> [u8; 2] {
    let mut k0 = [0u8; 4];
    if key.len() <= 4 {
        let mut i = 0;
        while i < key.len() {
            k0[i] = key[i];
            i += 1;
        }
    } else {
        let h = tiny_h(key);
        k0[0] = h[0];
        k0[1] = h[1];
    }
    let mut inner = [0u8; 24];
    let mut i = 0;
    while i < 4 {
        inner[i] = k0[i] ^ 0x36;
        i += 1;
    }
    let mut j = 0;
    while j < msg.len() {
        inner[4 + j] = msg[j];
        j += 1;
    }
    let hi = tiny_h(&inner[..4 + msg.len()]);
    let outer = [k0[0] ^ 0x5c, k0[1] ^ 0x5c, k0[2] ^ 0x5c, k0[3] ^ 0x5c, hi[0], hi[1]];
    tiny_h(&outer)
}
// RFC 5869 2.2: PRK = HMAC(salt, IKM)
// @harness props=C10 kind=bounded bound=salt=3,ikm=5,os=2 tier=quick timeout=600
#[kani::proof]
#[kani::unwind(26)]
fn hkdf_extract_is_hmac() {
    let salt: [u8; 3] = kani::any();
    let ikm: [u8; 5] = kani::any();
    let mut prk = [0u8; 2];
    hkdf_extract(Tiny::new(), &salt, &ikm, &mut prk);
    let e = spec_hmac(&salt, &ikm);
    assert!(prk[0] == e[0] && prk[1] == e[1]);
    kani::cover!(true);
}
// RFC 5869 2.3: T(0) = empty, T(i) = HMAC(PRK, T(i-1) | info | i), OKM = first L bytes of T(1) | T(2) | ...
fn hkdf_expand_case<const L: usize>() {
    let prk: [u8; 2] = kani::any();
    let info: [u8; 3] = kani::any();
    let mut okm = [0u8; L];
    hkdf_expand(Tiny::new(), &prk, &info, &mut okm);
    let mut t = [0u8; 2];
    let mut pos = 0;
    let mut i: u8 = 1;
    while pos < L {
        let mut msg = [0u8; 6];
        let mut n = 0;
        if i != 1 {
            msg[0] = t[0];
            msg[1] = t[1];
            n = 2;
        }
        msg[n] = info[0];
        msg[n + 1] = info[1];
        msg[n + 2] = info[2];
        msg[n + 3] = i;
        t = spec_hmac(&prk, &msg[..n + 4]);
        let mut k = 0;
        while k < 2 && pos < L {
            assert!(okm[pos] == t[k], "OKM byte");
            pos += 1;
            k += 1;
        }
        i += 1;
    }
    kani::cover!(true);
}
// @harness props=C10 kind=bounded bound=L=5,info=3,os=2 tier=quick timeout=900
#[kani::proof]
#[kani::unwind(26)]
fn hkdf_expand_l5() { hkdf_expand_case::<5>() }
// @harness props=C10 kind=bounded bound=L=2,info=3,os=2 tier=quick timeout=900
#[kani::proof]
#[kani::unwind(26)]
fn hkdf_expand_l2() { hkdf_expand_case::<2>() }
// @harness props=C10 kind=bounded bound=L=0,info=3,os=2 tier=quick timeout=900
#[kani::proof]
#[kani::unwind(26)]
fn hkdf_expand_l0() { hkdf_expand_case::<0>() }
// RFC 5869 2.3: L <= 255 * HashLen.  Concrete key material (the limit does not depend on it), real block counter: 255 blocks are
// produced, the 256th is refused loudly (`checked_add` on the u8 counter), also when it would be a partial block.
// @harness props=C10,C20 kind=bounded bound=L=511,os=2,concrete_inputs tier=thorough expect=refuse timeout=1200
#[kani::proof]
#[kani::unwind(258)]
fn hkdf_expand_refuses_block_256() {
    let prk = [1u8, 2];
    let info = [3u8, 4, 5];
    let mut okm = [0u8; 511];
    hkdf_expand(Tiny::new(), &prk, &info, &mut okm);
    kani::cover!(true);
}
// @harness props=C10 kind=bounded bound=L=510,os=2,concrete_inputs tier=thorough timeout=1200
#[kani::proof]
#[kani::unwind(258)]
fn hkdf_expand_produces_255_blocks() {
    let prk = [1u8, 2];
    let info = [3u8, 4, 5];
    let mut okm = [0u8; 510];
    hkdf_expand(Tiny::new(), &prk, &info, &mut okm);
    kani::cover!(true);
}
