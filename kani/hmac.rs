//! host: src/hmac.rs
//! Contracts of the functions the Verus unit `hmac` uses as contract-only stubs (`derive_key`, `expand_key`, `Mac::result`),
//! stated on the real functions over a small tracing digest (block size 4, output size 2: the code is generic in the
//! digest, a small one keeps CBMC's loops short), plus RFC 2104 end to end over that digest as a witness source.
use super::*;

/// digest of block size 4 and output size 2: H(m) = [sum of bytes + 3 * len, xor of bytes ^ 0xa5] over at most 24 bytes
#[derive(Clone)]
struct Tiny {
    fed: [u8; 24],
    n: usize,
    computed: bool,
}
fn tiny_h(m: &[u8]) -> [u8; 2] {
    let mut s = (3 * m.len()) as u8;
    let mut x = 0xa5u8;
    let mut i = 0;
    while i < m.len() {
        s = s.wrapping_add(m[i]);
        x ^= m[i];
        i += 1;
    }
    [s, x]
}
impl Tiny {
    fn new() -> Self {
        Tiny { fed: [0; 24], n: 0, computed: false }
    }
}
impl Digest for Tiny {
    fn input(&mut self, input: &[u8]) {
        assert!(!self.computed);
        let mut i = 0;
        while i < input.len() {
            self.fed[self.n] = input[i];
            self.n += 1;
            i += 1;
        }
    }
    fn result(&mut self, out: &mut [u8]) {
        assert!(!self.computed);
        self.computed = true;
        out.copy_from_slice(&tiny_h(&self.fed[..self.n]));
    }
    fn reset(&mut self) {
        self.n = 0;
        self.computed = false;
    }
    fn output_bits(&self) -> usize { 16 }
    fn block_size(&self) -> usize { 4 }
}
// derive_key: every byte of the slice XORed with the mask, nothing else written: every length <= 12 (symbolic), and the
// largest block size in the crate (144) at full length
// @harness props=C08,C09 kind=bounded bound=len<=12 tier=quick timeout=300 pairs=derive_key
#[kani::proof]
#[kani::unwind(15)]
fn hmac_derive_key() {
    let mut k: [u8; 14] = kani::any();
    let k0 = k;
    let m: u8 = kani::any();
    let n: usize = kani::any();
    kani::assume(n <= 12);
    derive_key(&mut k[1..1 + n], m);
    let mut i = 0;
    while i < 14 {
        assert!(k[i] == if i >= 1 && i < 1 + n { k0[i] ^ m } else { k0[i] });
        i += 1;
    }
    kani::cover!(true);
}
// @harness props=C08,C09 kind=bounded bound=len=144 tier=quick timeout=300 pairs=derive_key
#[kani::proof]
#[kani::unwind(146)]
fn hmac_derive_key_144() {
    let mut k: [u8; 144] = kani::any();
    let k0 = k;
    let m: u8 = kani::any();
    derive_key(&mut k, m);
    let mut i = 0;
    while i < 144 {
        assert!(k[i] == k0[i] ^ m);
        i += 1;
    }
    kani::cover!(true);
}
fn spec_key0(key: &[u8]) -> [u8; 4] {
    let mut k = [0u8; 4];
    if key.len() <= 4 {
        let mut i = 0;
        while i < key.len() {
            k[i] = key[i];
            i += 1;
        }
    } else {
        let h = tiny_h(key);
        k[0] = h[0];
        k[1] = h[1];
    }
    k
}
// expand_key: K' = key | 0.. if |key| <= block size, else H(key) | 0..; the digest is handed back in its initial state
// @harness props=C08,C09 kind=bounded bound=keylen<=9,bs=4,os=2 tier=quick timeout=300 pairs=expand_key
#[kani::proof]
#[kani::unwind(26)]
fn hmac_expand_key() {
    let key: [u8; 9] = kani::any();
    let n: usize = kani::any();
    kani::assume(n <= 9);
    let mut d = Tiny::new();
    let k = expand_key(&mut d, &key[..n]);
    let e = spec_key0(&key[..n]);
    assert!(k.len() == 4);
    assert!(k[0] == e[0] && k[1] == e[1] && k[2] == e[2] && k[3] == e[3]);
    assert!(d.n == 0 && !d.computed);
    kani::cover!(true);
}
fn spec_hmac(key: &[u8], msg: &[u8]) -> [u8; 2] {
    let k0 = spec_key0(key);
    let mut inner = [0u8; 24];
    let mut i = 0;
    while i < 4 {
        inner[i] = k0[i] ^ 0x36;
        i += 1;
    }
    let mut j = 0;
    while j < msg.len() {
        inner[4 + j] = msg[j];
        j += 1;
    }
    let hi = tiny_h(&inner[..4 + msg.len()]);
    let outer = [k0[0] ^ 0x5c, k0[1] ^ 0x5c, k0[2] ^ 0x5c, k0[3] ^ 0x5c, hi[0], hi[1]];
    tiny_h(&outer)
}
// RFC 2104 end to end over the tiny digest: message in two pieces, result() == raw_result(), output size == digest size,
// reset re-keys (same key, new message), input after result refused is a separate harness
// @harness props=C08,C09 kind=bounded bound=keylen<=6,msglen=5(cut2),bs=4,os=2 tier=quick timeout=900 pairs=new,raw_result,result,reset,input
#[kani::proof]
#[kani::unwind(26)]
fn hmac_rfc2104_tiny() {
    let key: [u8; 6] = kani::any();
    let n: usize = kani::any();
    kani::assume(n <= 6);
    let msg: [u8; 5] = kani::any();
    let mut h = Hmac::new(Tiny::new(), &key[..n]);
    assert!(h.output_bytes() == 2);
    h.input(&msg[..2]);
    h.input(&msg[2..]);
    let r = h.result();
    let e = spec_hmac(&key[..n], &msg);
    assert!(r.code().len() == 2 && r.code()[0] == e[0] && r.code()[1] == e[1]);
    h.reset();
    h.input(&msg[1..4]);
    let mut out = [0u8; 2];
    h.raw_result(&mut out);
    let e2 = spec_hmac(&key[..n], &msg[1..4]);
    assert!(out[0] == e2[0] && out[1] == e2[1]);
    kani::cover!(true);
}
// input after result without reset fails loudly
// @harness props=C09,C20 kind=full tier=quick expect=refuse timeout=300
#[kani::proof]
#[kani::unwind(26)]
fn hmac_input_after_result_refused() {
    let mut h = Hmac::new(Tiny::new(), &[1, 2, 3]);
    h.input(&[7]);
    let mut out = [0u8; 2];
    h.raw_result(&mut out);
    h.input(&[8]);
    kani::cover!(true);
}
// a second result without reset fails loudly (the legacy digests assert !computed)
// @harness props=C09,C20 kind=full tier=quick expect=refuse timeout=300
#[kani::proof]
#[kani::unwind(26)]
fn hmac_result_twice_refused() {
    let mut h = Hmac::new(Tiny::new(), &[1, 2, 3]);
    h.input(&[7]);
    let mut out = [0u8; 2];
    h.raw_result(&mut out);
    h.raw_result(&mut out);
    kani::cover!(true);
}
