//! host: src/ed25519.rs
//! C13 / C14 witnesses above the hash, scalar and group layers: which bytes Ed25519 signing and verification feed to SHA-512
//! (RFC 8032 5.1.6 steps 2 and 4, 5.1.7 step 2).  `digest_block` of SHA-512 is replaced by a recorder, the scalar
//! multiplications, point decoding and muladd by constants, so the run is cheap; the recorded bytes must be the FIPS 180-4 padding of
//! prefix | M (nonce) and of R | A | M (challenge).  Concrete message lengths at and around the block boundaries, symbolic
//! message and key bytes: bounded stand-ins that give a replayable witness when the Verus unit ed25519 cannot decide a
//! restructured function.
use super::*;

const TMAX: usize = 640;
static mut TRACE: [u8; TMAX] = [0; TMAX];
static mut TLEN: usize = 0;
fn rec512(_state: &mut [u64; 8], block: &[u8]) {
    unsafe {
        let mut i = 0;
        while i < block.len() {
            TRACE[TLEN] = block[i];
            TLEN += 1;
            i += 1;
        }
    }
}
fn take() -> ([u8; TMAX], usize) {
    unsafe {
        let r = (TRACE, TLEN);
        TLEN = 0;
        r
    }
}
fn fixed_point(_a: &Scalar) -> Ge {
    Ge::ZERO
}
fn fixed_double(_a: &Scalar, _p: Ge, _b: &Scalar) -> GePartial {
    GePartial::ZERO
}
fn fixed_muladd(_a: &Scalar, _b: &Scalar, _c: &Scalar) -> Scalar {
    Scalar::ZERO
}
fn fixed_decode(_s: &[u8; 32]) -> Option<Ge> {
    Some(Ge::ZERO)
}
fn fixed_reduce(_s: &[u8; 64]) -> Scalar {
    Scalar::ZERO
}
fn fixed_enc(_p: &Ge) -> [u8; 32] {
    [7u8; 32]
}
fn fixed_enc_partial(_p: &GePartial) -> [u8; 32] {
    [7u8; 32]
}
/// the SHA-512 padding of the concatenation of up to three pieces must be what was recorded from offset `from`
fn check_padded(t: &[u8; TMAX], from: usize, upto: usize, p1: &[u8], p2: &[u8], p3: &[u8]) {
    let n = p1.len() + p2.len() + p3.len();
    let total = (n + 1 + 16 + 127) / 128 * 128;
    assert!(upto - from == total, "number of bytes hashed");
    let mut k = 0;
    while k < total {
        let want = if k < p1.len() {
            p1[k]
        } else if k < p1.len() + p2.len() {
            p2[k - p1.len()]
        } else if k < n {
            p3[k - p1.len() - p2.len()]
        } else if k == n {
            0x80
        } else if k < total - 8 {
            0
        } else {
            (((n as u64) * 8) >> (8 * (total - 1 - k))) as u8
        };
        assert!(t[from + k] == want, "hashed byte");
        k += 1;
    }
}
fn padded_len(n: usize) -> usize {
    (n + 1 + 16 + 127) / 128 * 128
}
fn sign_extended_case<const N: usize>() {
    let msg: [u8; N] = kani::any();
    let ext: [u8; 64] = kani::any();
    let sig = signature_extended(&msg, &ext);
    let (t, n) = take();
    // first hash: prefix | M; second hash: R | A | M with R = A = the encoding of the fixed point
    let enc = Ge::ZERO.to_bytes();
    let l1 = padded_len(32 + N);
    check_padded(&t, 0, l1, &ext[32..64], &msg, &[]);
    check_padded(&t, l1, n, &enc, &enc, &msg);
    let mut i = 0;
    while i < 32 {
        assert!(sig[i] == enc[i], "R is the first half of the signature");
        i += 1;
    }
    kani::cover!(true);
}
fn verify_case<const N: usize>() {
    let msg: [u8; N] = kani::any();
    let sig: [u8; 64] = kani::any();
    // a fixed, valid public key encoding (the base point's y = 4/5) so that decoding is concrete
    let pk: [u8; 32] = [
        0x58, 0x66, 0x66, 0x66, 0x66, 0x66, 0x66, 0x66, 0x66, 0x66, 0x66, 0x66, 0x66, 0x66, 0x66, 0x66, 0x66, 0x66, 0x66, 0x66, 0x66, 0x66,
        0x66, 0x66, 0x66, 0x66, 0x66, 0x66, 0x66, 0x66, 0x66, 0x66,
    ];
    kani::assume(sig[63] == 0);              // S < 2^248 < L: canonical, so the hash is reached
    let _ = verify(&msg, &pk, &sig);
    let (t, n) = take();
    check_padded(&t, 0, n, &sig[0..32], &pk, &msg);
    kani::cover!(true);
}
// @harness props=C13 kind=bounded bound=msglen=0 tier=quick timeout=900
#[kani::proof]
#[kani::stub(crate::hashing::sha2::impl512::digest_block, rec512)]
#[kani::stub(Ge::scalarmult_base, fixed_point)]
#[kani::stub(scalar::muladd, fixed_muladd)]
#[kani::stub(Scalar::reduce_from_wide_bytes, fixed_reduce)]
#[kani::stub(Ge::to_bytes, fixed_enc)]
#[kani::unwind(385)]
fn ed25519_sign_hash_inputs_len0() { sign_extended_case::<0>() }
// @harness props=C13 kind=bounded bound=msglen=79 tier=thorough timeout=900
#[kani::proof]
#[kani::stub(crate::hashing::sha2::impl512::digest_block, rec512)]
#[kani::stub(Ge::scalarmult_base, fixed_point)]
#[kani::stub(scalar::muladd, fixed_muladd)]
#[kani::stub(Scalar::reduce_from_wide_bytes, fixed_reduce)]
#[kani::stub(Ge::to_bytes, fixed_enc)]
#[kani::unwind(385)]
fn ed25519_sign_hash_inputs_len79() { sign_extended_case::<79>() }
// @harness props=C13 kind=bounded bound=msglen=100 tier=quick timeout=900
#[kani::proof]
#[kani::stub(crate::hashing::sha2::impl512::digest_block, rec512)]
#[kani::stub(Ge::scalarmult_base, fixed_point)]
#[kani::stub(scalar::muladd, fixed_muladd)]
#[kani::stub(Scalar::reduce_from_wide_bytes, fixed_reduce)]
#[kani::stub(Ge::to_bytes, fixed_enc)]
#[kani::unwind(385)]
fn ed25519_sign_hash_inputs_len100() { sign_extended_case::<100>() }
// @harness props=C13 kind=bounded bound=msglen=128 tier=thorough timeout=1200
#[kani::proof]
#[kani::stub(crate::hashing::sha2::impl512::digest_block, rec512)]
#[kani::stub(Ge::scalarmult_base, fixed_point)]
#[kani::stub(scalar::muladd, fixed_muladd)]
#[kani::stub(Scalar::reduce_from_wide_bytes, fixed_reduce)]
#[kani::stub(Ge::to_bytes, fixed_enc)]
#[kani::unwind(385)]
fn ed25519_sign_hash_inputs_len128() { sign_extended_case::<128>() }
// @harness props=C14 kind=bounded bound=msglen=0 tier=quick timeout=900
#[kani::proof]
#[kani::stub(crate::hashing::sha2::impl512::digest_block, rec512)]
#[kani::stub(GePartial::double_scalarmult_vartime, fixed_double)]
#[kani::stub(Ge::from_bytes, fixed_decode)]
#[kani::stub(Scalar::reduce_from_wide_bytes, fixed_reduce)]
#[kani::stub(GePartial::to_bytes, fixed_enc_partial)]
#[kani::unwind(385)]
fn ed25519_verify_hash_inputs_len0() { verify_case::<0>() }
// @harness props=C14 kind=bounded bound=msglen=47 tier=quick timeout=900
#[kani::proof]
#[kani::stub(crate::hashing::sha2::impl512::digest_block, rec512)]
#[kani::stub(GePartial::double_scalarmult_vartime, fixed_double)]
#[kani::stub(Ge::from_bytes, fixed_decode)]
#[kani::stub(Scalar::reduce_from_wide_bytes, fixed_reduce)]
#[kani::stub(GePartial::to_bytes, fixed_enc_partial)]
#[kani::unwind(385)]
fn ed25519_verify_hash_inputs_len47() { verify_case::<47>() }
// @harness props=C14 kind=bounded bound=msglen=70 tier=thorough timeout=1200
#[kani::proof]
#[kani::stub(crate::hashing::sha2::impl512::digest_block, rec512)]
#[kani::stub(GePartial::double_scalarmult_vartime, fixed_double)]
#[kani::stub(Ge::from_bytes, fixed_decode)]
#[kani::stub(Scalar::reduce_from_wide_bytes, fixed_reduce)]
#[kani::stub(GePartial::to_bytes, fixed_enc_partial)]
#[kani::unwind(385)]
fn ed25519_verify_hash_inputs_len70() { verify_case::<70>() }
