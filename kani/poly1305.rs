//! host: src/poly1305.rs
//! Contracts of the functions that the Verus unit `poly1305` uses as contract-only stubs (`new`, `finish`), stated on
//! the real functions, plus state-machine obligations of C09 for which a concrete witness is wanted.
use super::*;
use crate::mac::Mac;

// ---- harness-side 192-bit little-endian arithmetic (value of five 26-bit limbs, multiples of p)
fn add3(a: [u64; 3], b: [u64; 3]) -> [u64; 3] {
    let mut r = [0u64; 3];
    let mut c = 0u128;
    let mut i = 0;
    while i < 3 {
        let t = a[i] as u128 + b[i] as u128 + c;
        r[i] = t as u64;
        c = t >> 64;
        i += 1;
    }
    r
}
fn limbs_value(h: &[u32; 5]) -> [u64; 3] {
    let mut acc = [0u64; 3];
    let mut i = 0;
    while i < 5 {
        let sh = 26 * i;
        let w = sh / 64;
        let b = sh % 64;
        let mut term = [0u64; 3];
        term[w] = (h[i] as u64) << b;
        if b != 0 && w + 1 < 3 {
            term[w + 1] = (h[i] as u64) >> (64 - b);
        }
        acc = add3(acc, term);
        i += 1;
    }
    acc
}
const P: [u64; 3] = [0xffff_ffff_ffff_fffb, 0xffff_ffff_ffff_ffff, 0x3]; // 2^130 - 5

/// tag == ((value(h) mod p) + pad) mod 2^128, stated relationally: exists k <= 5, hred < p, value(h) == hred + k*p
fn tag_is_reduce_then_add_pad(h: &[u32; 5], pad: &[u32; 4], out: &[u32; 5]) -> bool {
    let v = limbs_value(h);
    let tag = [(out[0] as u64) | ((out[1] as u64) << 32), (out[2] as u64) | ((out[3] as u64) << 32)];
    let padv = [(pad[0] as u64) | ((pad[1] as u64) << 32), (pad[2] as u64) | ((pad[3] as u64) << 32)];
    let mut ok = false;
    let mut kp = [0u64; 3];
    let mut k = 0;
    while k <= 5 {
        let ge = v[2] > kp[2] || (v[2] == kp[2] && (v[1] > kp[1] || (v[1] == kp[1] && v[0] >= kp[0])));
        if ge {
            let (d0, b0) = v[0].overflowing_sub(kp[0]);
            let (d1a, b1a) = v[1].overflowing_sub(kp[1]);
            let (d1, b1b) = d1a.overflowing_sub(b0 as u64);
            let d2 = v[2].wrapping_sub(kp[2]).wrapping_sub((b1a || b1b) as u64);
            let lt_p = d2 < P[2] || (d2 == P[2] && (d1 < P[1] || (d1 == P[1] && d0 < P[0])));
            if lt_p {
                let (s0, c0) = d0.overflowing_add(padv[0]);
                let s1 = d1.wrapping_add(padv[1]).wrapping_add(c0 as u64);
                if s0 == tag[0] && s1 == tag[1] {
                    ok = true;
                }
            }
        }
        kp = add3(kp, P);
        k += 1;
    }
    ok
}
fn hwf(h: &[u32; 5]) -> bool {
    h[0] < (1 << 26) && h[1] < (1 << 26) + 64 && h[2] < (1 << 26) && h[3] < (1 << 26) && h[4] < (1 << 26)
}
fn rwf(r: &[u32; 5]) -> bool {
    r[0] < (1 << 26) && r[1] < (1 << 26) && r[2] < (1 << 26) && r[3] < (1 << 26) && r[4] < (1 << 26)
}
fn eq5(a: &[u32; 5], b: &[u32; 5]) -> bool {
    a[0] == b[0] && a[1] == b[1] && a[2] == b[2] && a[3] == b[3] && a[4] == b[4]
}
fn eq4(a: &[u32; 4], b: &[u32; 4]) -> bool {
    a[0] == b[0] && a[1] == b[1] && a[2] == b[2] && a[3] == b[3]
}
fn any_r() -> [u32; 5] {
    let r: [u32; 5] = kani::any();
    kani::assume(rwf(&r));
    r
}

// `new`: r == le128(key[0..16]) & 0x0ffffffc0ffffffc0ffffffc0fffffff split in 26-bit limbs, pad == le(key[16..32]),
// fresh state.  Same text as the Verus stub's `ensures`.
// @harness props=C05 kind=full tier=quick
#[kani::proof]
#[kani::unwind(18)]
fn poly1305_new_contract() {
    let key: [u8; 32] = kani::any();
    let p = Poly1305::new(&key);
    let mut lo = [0u8; 16];
    let mut hi = [0u8; 16];
    let mut i = 0;
    while i < 16 {
        lo[i] = key[i];
        hi[i] = key[16 + i];
        i += 1;
    }
    let r = u128::from_le_bytes(lo) & 0x0ffffffc0ffffffc0ffffffc0fffffffu128;
    let s = u128::from_le_bytes(hi);
    assert!(p.r[0] as u128 == r & 0x3ffffff);
    assert!(p.r[1] as u128 == (r >> 26) & 0x3ffffff);
    assert!(p.r[2] as u128 == (r >> 52) & 0x3ffffff);
    assert!(p.r[3] as u128 == (r >> 78) & 0x3ffffff);
    assert!(p.r[4] as u128 == (r >> 104));
    assert!(p.pad[0] as u128 == s & 0xffffffff && p.pad[1] as u128 == (s >> 32) & 0xffffffff);
    assert!(p.pad[2] as u128 == (s >> 64) & 0xffffffff && p.pad[3] as u128 == s >> 96);
    assert!(p.h[0] == 0 && p.h[1] == 0 && p.h[2] == 0 && p.h[3] == 0 && p.h[4] == 0);
    assert!(p.leftover == 0 && !p.finalized && rwf(&p.r));
    kani::cover!(true);
}

// `finish`, no pending bytes: for EVERY accumulator inside block's limb invariant (this is where val(h) in [p, 2^130)
// and a pending carry in h1 live) the tag is the canonical reduction plus pad; the object is marked finalized.
// @harness props=C05,C09 kind=full tier=quick pairs=raw_result
#[kani::proof]
#[kani::unwind(12)]
fn poly1305_finish_aligned() {
    let h: [u32; 5] = kani::any();
    let pad: [u32; 4] = kani::any();
    kani::assume(hwf(&h));
    let r = any_r();
    let buffer: [u8; 16] = kani::any();
    let mut p = Poly1305 { r, h, pad, leftover: 0, buffer, finalized: false };
    p.finish();
    assert!(tag_is_reduce_then_add_pad(&h, &pad, &p.h));
    assert!(p.finalized);
    assert!(eq5(&p.r, &r) && eq4(&p.pad, &pad) && p.leftover < 16);
    kani::cover!(true);
}

// `finish`, 1..=15 pending bytes: the block function is replaced by a recording stub that havocs h inside block's
// proved postcondition; finish must hand it exactly `buffer[..leftover] || 01 || 00..` with the high bit off
// (finalized already set), exactly once, and then reduce what block left.
static mut REC_BLOCK: [u8; 16] = [0; 16];
static mut REC_CALLS: u32 = 0;
static mut REC_FINALIZED: bool = false;
static mut REC_H: [u32; 5] = [0; 5];
fn block_stub(this: &mut Poly1305, m: &[u8]) {
    assert!(m.len() == 16);
    let nh: [u32; 5] = kani::any();
    kani::assume(hwf(&nh));
    unsafe {
        let mut i = 0;
        while i < 16 {
            REC_BLOCK[i] = m[i];
            i += 1;
        }
        REC_CALLS += 1;
        REC_FINALIZED = this.finalized;
        REC_H = nh;
    }
    this.h = nh;
}
// @harness props=C05,C09 kind=full tier=quick
#[kani::proof]
#[kani::unwind(18)]
#[kani::stub(Poly1305::block, block_stub)]
fn poly1305_finish_partial() {
    let h: [u32; 5] = kani::any();
    let pad: [u32; 4] = kani::any();
    kani::assume(hwf(&h));
    let r = any_r();
    let buffer: [u8; 16] = kani::any();
    let leftover: usize = kani::any();
    kani::assume(leftover >= 1 && leftover < 16);
    let mut p = Poly1305 { r, h, pad, leftover, buffer, finalized: false };
    p.finish();
    unsafe {
        assert!(REC_CALLS == 1);
        assert!(REC_FINALIZED);
        let mut i = 0;
        while i < 16 {
            let want = if i < leftover { buffer[i] } else if i == leftover { 1 } else { 0 };
            assert!(REC_BLOCK[i] == want);
            i += 1;
        }
        let rh = REC_H;
        assert!(tag_is_reduce_then_add_pad(&rh, &pad, &p.h));
    }
    assert!(p.finalized && eq5(&p.r, &r) && eq4(&p.pad, &pad));
    kani::cover!(true);
}

// C09: asking for the result again returns the same bytes (any reachable un-finalized state without pending bytes:
// the block-aligned messages of the property text)
// @harness props=C09 kind=full tier=quick pairs=raw_result
#[kani::proof]
#[kani::unwind(18)]
fn poly1305_result_twice_same_aligned() {
    let h: [u32; 5] = kani::any();
    kani::assume(hwf(&h));
    let mut p = Poly1305 { r: any_r(), h, pad: kani::any(), leftover: 0, buffer: kani::any(), finalized: false };
    let mut a = [0u8; 16];
    let mut b = [0u8; 16];
    p.raw_result(&mut a);
    p.raw_result(&mut b);
    let mut i = 0;
    while i < 16 {
        assert!(a[i] == b[i]);
        i += 1;
    }
    kani::cover!(true);
}
// @harness props=C09 kind=full tier=quick
#[kani::proof]
#[kani::unwind(18)]
#[kani::stub(Poly1305::block, block_stub)]
fn poly1305_result_twice_same_partial() {
    let h: [u32; 5] = kani::any();
    kani::assume(hwf(&h));
    let leftover: usize = kani::any();
    kani::assume(leftover >= 1 && leftover < 16);
    let mut p = Poly1305 { r: any_r(), h, pad: kani::any(), leftover, buffer: kani::any(), finalized: false };
    let mut a = [0u8; 16];
    let mut b = [0u8; 16];
    p.raw_result(&mut a);
    p.raw_result(&mut b);
    let mut i = 0;
    while i < 16 {
        assert!(a[i] == b[i]);
        i += 1;
    }
    unsafe { assert!(REC_CALLS == 1); }
    kani::cover!(true);
}

// C09: feeding input after a result without a reset fails loudly (both for aligned and unaligned messages)
// @harness props=C09 kind=full tier=quick expect=refuse
#[kani::proof]
#[kani::unwind(18)]
#[kani::stub(Poly1305::block, block_stub)]
fn poly1305_input_after_result_refused() {
    let h: [u32; 5] = kani::any();
    kani::assume(hwf(&h));
    let leftover: usize = kani::any();
    kani::assume(leftover < 16);
    let mut p = Poly1305 { r: any_r(), h, pad: kani::any(), leftover, buffer: kani::any(), finalized: false };
    let mut a = [0u8; 16];
    p.raw_result(&mut a);
    let d: [u8; 3] = kani::any();
    p.input(&d);
    kani::cover!(true);
}

// C09: after reset the object is field-for-field the freshly constructed one with the same key
// @harness props=C09 kind=full tier=quick pairs=implMacforPoly1305/reset
#[kani::proof]
#[kani::unwind(18)]
fn poly1305_reset_is_fresh() {
    let key: [u8; 32] = kani::any();
    let fresh = Poly1305::new(&key);
    let mut p = Poly1305::new(&key);
    p.h = kani::any();
    p.leftover = kani::any();
    kani::assume(p.leftover < 16);
    p.buffer = kani::any();
    p.finalized = kani::any();
    p.reset();
    assert!(eq5(&p.h, &fresh.h) && eq5(&p.r, &fresh.r) && eq4(&p.pad, &fresh.pad));
    assert!(p.leftover == fresh.leftover && p.finalized == fresh.finalized);
    kani::cover!(true);
}
