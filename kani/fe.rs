//! host: src/curve25519/fe/fe64/mod.rs
//! Contracts of the field-element (de)serialisation and of `square_and_double` (functions the Verus unit fe64 uses as
//! contract-only stubs), stated on the real functions for ALL inputs in the operand range: complete proofs.
//! Relational contracts (DESIGN.md section 2): no reference reduction algorithm, only the defining property
//! "canonical and congruent".
use super::*;

// 320-bit little-endian bignum helpers (harness-side spec arithmetic)
fn add5(a: [u64; 5], b: [u64; 5]) -> [u64; 5] {
    let mut r = [0u64; 5];
    let mut c = 0u128;
    let mut i = 0;
    while i < 5 {
        let t = a[i] as u128 + b[i] as u128 + c;
        r[i] = t as u64;
        c = t >> 64;
        i += 1;
    }
    r
}
const P: [u64; 5] = [0xffff_ffff_ffff_ffed, 0xffff_ffff_ffff_ffff, 0xffff_ffff_ffff_ffff, 0x7fff_ffff_ffff_ffff, 0];
fn limbs_value(t: &[u64; 5]) -> [u64; 5] {
    let mut acc = [0u64; 5];
    let mut i = 0;
    while i < 5 {
        let sh = 51 * i;
        let w = sh / 64;
        let b = sh % 64;
        let mut term = [0u64; 5];
        term[w] = t[i] << b;
        if b != 0 && w + 1 < 5 {
            term[w + 1] = t[i] >> (64 - b);
        }
        acc = add5(acc, term);
        i += 1;
    }
    acc
}
const BND: u64 = 0x1fffffffffff80; // operand discipline of the Verus unit: limbs < 2^53 - 2^7

// to_packed: the four words are the canonical representative (< p) of the limb vector's value, for every limb vector in range
// @harness props=C15,C12,C17 kind=full tier=quick timeout=900 pairs=to_packed,to_bytes,is_negative
#[kani::proof]
#[kani::unwind(41)]
fn fe_to_packed_canonical() {
    let t: [u64; 5] = kani::any();
    kani::assume(t[0] < BND && t[1] < BND && t[2] < BND && t[3] < BND && t[4] < BND);
    let out = Fe(t).to_packed();
    let lt_p = out[3] < P[3] || (out[3] == P[3] && (out[2] < P[2] || (out[2] == P[2] && (out[1] < P[1] || (out[1] == P[1] && out[0] < P[0])))));
    assert!(lt_p, "canonical");
    let v = limbs_value(&t);
    let mut cand = [out[0], out[1], out[2], out[3], 0u64];
    let mut found = false;
    let mut k = 0;
    while k <= 9 {
        if cand == v {
            found = true;
        }
        cand = add5(cand, P);
        k += 1;
    }
    assert!(found, "value == out + k*p for some k <= 9");
    kani::cover!(true);
}
// to_bytes: the 32 little-endian bytes of to_packed
// @harness props=C15,C12,C17 kind=full tier=quick timeout=900 pairs=to_bytes
#[kani::proof]
#[kani::unwind(33)]
fn fe_to_bytes_is_le_of_packed() {
    let t: [u64; 5] = kani::any();
    kani::assume(t[0] < BND && t[1] < BND && t[2] < BND && t[3] < BND && t[4] < BND);
    let f = Fe(t);
    let p = f.to_packed();
    let b = f.to_bytes();
    let mut i = 0;
    while i < 32 {
        assert!(b[i] == (p[i / 8] >> (8 * (i % 8))) as u8);
        i += 1;
    }
    kani::cover!(true);
}
// from_bytes: limbs below 2^51 and bit j of the input (j < 255; bit 255 ignored) is bit j%51 of limb j/51
// @harness props=C15,C12,C17 kind=full tier=quick timeout=900 pairs=from_bytes
#[kani::proof]
#[kani::unwind(256)]
fn fe_from_bytes_bits() {
    let b: [u8; 32] = kani::any();
    let f = Fe::from_bytes(&b);
    let mut i = 0;
    while i < 5 {
        assert!(f.0[i] < (1u64 << 51));
        i += 1;
    }
    let mut j = 0;
    while j < 255 {
        let bit = (b[j / 8] >> (j % 8)) & 1;
        assert!(((f.0[j / 51] >> (j % 51)) & 1) as u8 == bit);
        j += 1;
    }
    kani::cover!(true);
}
// square_and_double: every limb of the result is twice the corresponding limb of what `square` returned (the iter_mut
// loop); `square` itself (proved in the Verus unit) is replaced by a stub returning an arbitrary carried element
static mut SQ_OUT: [u64; 5] = [0; 5];
fn square_stub(_this: &Fe) -> Fe {
    let s: [u64; 5] = kani::any();
    kani::assume(s[0] < 0x8000000002000 && s[1] < 0x8000000002000 && s[2] < 0x8000000002000 && s[3] < 0x8000000002000 && s[4] < 0x8000000002000);
    unsafe { SQ_OUT = s; }
    Fe(s)
}
// @harness props=C15 kind=full tier=quick timeout=120 pairs=square_and_double
#[kani::proof]
#[kani::stub(Fe::square, square_stub)]
#[kani::unwind(7)]
fn fe_square_and_double_doubles_square() {
    let t: [u64; 5] = kani::any();
    let d = Fe(t).square_and_double();
    let mut i = 0;
    while i < 5 {
        assert!(d.0[i] == unsafe { SQ_OUT[i] } * 2);
        i += 1;
    }
    kani::cover!(true);
}

// ---- relational full-domain contracts of the multiplication-free field operations: value(out) + k*p == expected value
// for some small k, and the output limb bound.  320-bit harness arithmetic; no reference reduction.
fn sub5(a: [u64; 5], b: [u64; 5]) -> [u64; 5] {
    let mut r = [0u64; 5];
    let mut bw = 0u64;
    let mut i = 0;
    while i < 5 {
        let (d, b1) = a[i].overflowing_sub(b[i]);
        let (d2, b2) = d.overflowing_sub(bw);
        r[i] = d2;
        bw = (b1 || b2) as u64;
        i += 1;
    }
    r
}
fn mul_small5(a: [u64; 5], s: u64) -> [u64; 5] {
    let mut r = [0u64; 5];
    let mut c = 0u128;
    let mut i = 0;
    while i < 5 {
        let t = a[i] as u128 * s as u128 + c;
        r[i] = t as u64;
        c = t >> 64;
        i += 1;
    }
    r
}
/// exists k <= K: a + k*p == b
fn congruent_up(a: [u64; 5], b: [u64; 5], kmax: usize) -> bool {
    let mut cand = a;
    let mut found = false;
    let mut k = 0;
    while k <= kmax {
        if cand == b {
            found = true;
        }
        cand = add5(cand, P);
        k += 1;
    }
    found
}
fn any_bnd() -> [u64; 5] {
    let t: [u64; 5] = kani::any();
    kani::assume(t[0] < BND && t[1] < BND && t[2] < BND && t[3] < BND && t[4] < BND);
    t
}
fn is_tight(f: &Fe) -> bool {
    f.0[0] < 0x8000000002000 && f.0[1] < 0x8000000002000 && f.0[2] < 0x8000000002000 && f.0[3] < 0x8000000002000 && f.0[4] < 0x8000000002000
}
// @harness props=C15,C12,C17 kind=full tier=thorough timeout=2400 pairs=add
#[kani::proof]
#[kani::unwind(42)]
fn fe_add_relational() {
    let a = any_bnd();
    let b = any_bnd();
    let r = &Fe(a) + &Fe(b);
    assert!(is_tight(&r));
    // value(r) + k*p == value(a) + value(b), k <= 8
    assert!(congruent_up(limbs_value(&r.0), add5(limbs_value(&a), limbs_value(&b)), 8));
    kani::cover!(true);
}
// @harness props=C15,C12,C17 kind=full tier=thorough timeout=2400 pairs=sub
#[kani::proof]
#[kani::unwind(42)]
fn fe_sub_relational() {
    let a = any_bnd();
    let b = any_bnd();
    let r = &Fe(a) - &Fe(b);
    assert!(is_tight(&r));
    // value(r) + value(b) + k*p == value(a) + 4p, k <= 8
    let four_p = add5(add5(P, P), add5(P, P));
    assert!(congruent_up(add5(limbs_value(&r.0), limbs_value(&b)), add5(limbs_value(&a), four_p), 8));
    kani::cover!(true);
}
// @harness props=C15,C17 kind=full tier=quick timeout=300 pairs=neg,negate_mut
#[kani::proof]
#[kani::unwind(42)]
fn fe_neg_relational() {
    let b = any_bnd();
    let r = -&Fe(b);
    assert!(is_tight(&r));
    let four_p = add5(add5(P, P), add5(P, P));
    assert!(congruent_up(add5(limbs_value(&r.0), limbs_value(&b)), four_p, 8));
    let mut m = Fe(b);
    m.negate_mut();
    assert!(m.0 == r.0);
    kani::cover!(true);
}
fn check_mul_small<const S: u32>() {
    let a = any_bnd();
    let r = Fe(a).mul_small::<S>();
    assert!(is_tight(&r));
    // value(r) + k*p == S * value(a); S * value(a) < 2^17 * 2^258, so k < 2^21: instead compare through the carry the code
    // folds: value(r) == S*value(a) - c*p where c = floor(S*value(a) / 2^255) up to the +-1 of the last carry
    let prod = mul_small5(limbs_value(&a), S as u64);
    // c = prod >> 255
    let c = (prod[3] >> 63) | (prod[4] << 1);
    let cp = mul_small5(P, c);
    let base = sub5(prod, cp);                      // prod - c*p  (>= 0 since c*p <= prod)
    // value(r) is base or base - p ... base + p (one extra carry may or may not have been folded)
    let v = limbs_value(&r.0);
    assert!(v == base || add5(v, P) == base || v == add5(base, P));
    kani::cover!(true);
}
// @attempt (not run: CBMC crashes on the 128-bit products) props=C12,C15 kind=full tier=thorough timeout=2400 pairs=mul_small
#[kani::proof]
#[kani::unwind(42)]
fn fe_mul_small_121666() { check_mul_small::<121666>() }
// @harness props=C12,C15 kind=full tier=quick timeout=400 pairs=mul_small
#[kani::proof]
#[kani::unwind(42)]
fn fe_mul_small_9() { check_mul_small::<9>() }
