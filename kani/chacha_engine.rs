//! host: src/chacha/sse2.rs
//! The SSE2 ChaCha engine (the one compiled on x86-64) against the portable engine (proved against RFC 8439 by the Verus
//! unit `chacha`) and against the RFC state layout, operation by operation, under the refinement relation
//! "the four vectors a,b,c,d are the sixteen words 0..3, 4..7, 8..11, 12..15".  Every harness is loop-free apart from
//! constant-bound loops and ranges over all inputs: complete proofs per operation (C16, C03).
use super::*;

#[path = "../chacha/reference.rs"]
mod portable;

fn v(w: [u32; 4]) -> __m128i {
    unsafe { core::mem::transmute::<[u32; 4], __m128i>(w) }
}
fn w4(x: __m128i) -> [u32; 4] {
    unsafe { core::mem::transmute::<__m128i, [u32; 4]>(x) }
}
fn s_from<const R: usize>(w: &[u32; 16]) -> State<R> {
    State { a: v([w[0], w[1], w[2], w[3]]), b: v([w[4], w[5], w[6], w[7]]), c: v([w[8], w[9], w[10], w[11]]), d: v([w[12], w[13], w[14], w[15]]) }
}
fn s_words<const R: usize>(s: &State<R>) -> [u32; 16] {
    let (a, b, c, d) = (w4(s.a), w4(s.b), w4(s.c), w4(s.d));
    [a[0], a[1], a[2], a[3], b[0], b[1], b[2], b[3], c[0], c[1], c[2], c[3], d[0], d[1], d[2], d[3]]
}
// portable::State is a struct of one field `state: [u32; 16]` (private to that module): built and read through its layout
fn p_from<const R: usize>(w: &[u32; 16]) -> portable::State<R> {
    unsafe { core::mem::transmute::<[u32; 16], portable::State<R>>(*w) }
}
fn p_words<const R: usize>(s: &portable::State<R>) -> [u32; 16] {
    unsafe { core::mem::transmute::<portable::State<R>, [u32; 16]>(s.clone()) }
}
fn eq16(a: &[u32; 16], b: &[u32; 16]) -> bool {
    let mut ok = true;
    let mut i = 0;
    while i < 16 {
        ok &= a[i] == b[i];
        i += 1;
    }
    ok
}
fn le(b: &[u8], i: usize) -> u32 {
    (b[4 * i] as u32) | ((b[4 * i + 1] as u32) << 8) | ((b[4 * i + 2] as u32) << 16) | ((b[4 * i + 3] as u32) << 24)
}
/// RFC 8439 2.3 / Bernstein: constants | key (16-byte key twice, tau constants) | counter-and-nonce words at counter 0
fn rfc_layout(key: &[u8], nonce: &[u8]) -> [u32; 16] {
    let mut s = [0u32; 16];
    s[0] = 0x61707865;
    s[3] = 0x6b206574;
    if key.len() == 32 {
        s[1] = 0x3320646e;
        s[2] = 0x79622d32;
    } else {
        s[1] = 0x3120646e;
        s[2] = 0x79622d36;
    }
    let mut i = 0;
    while i < 8 {
        s[4 + i] = if key.len() == 32 { le(key, i) } else { le(key, i % 4) };
        i += 1;
    }
    let nw = nonce.len() / 4;
    let mut j = 0;
    while j < nw {
        s[16 - nw + j] = le(nonce, j);
        j += 1;
    }
    s
}
fn check_init<const K: usize, const N: usize>() {
    let key: [u8; K] = kani::any();
    let nonce: [u8; N] = kani::any();
    let e = rfc_layout(&key, &nonce);
    let a = State::<20>::init(&key, &nonce);
    let b = portable::State::<20>::init(&key, &nonce);
    assert!(eq16(&s_words(&a), &e), "SSE2 init == RFC layout");
    assert!(eq16(&p_words(&b), &e), "portable init == RFC layout");
    kani::cover!(true);
}
// @harness props=C03,C16 kind=full tier=quick pairs=chacha/reference/impl<constROUNDS:usize>State<ROUNDS>/init
#[kani::proof]
#[kani::unwind(17)]
fn engine_init_k16_n8() { check_init::<16, 8>() }
// @harness props=C03,C16 kind=full tier=quick pairs=chacha/reference/impl<constROUNDS:usize>State<ROUNDS>/init
#[kani::proof]
#[kani::unwind(17)]
fn engine_init_k16_n12() { check_init::<16, 12>() }
// @harness props=C03,C16 kind=full tier=quick pairs=chacha/reference/impl<constROUNDS:usize>State<ROUNDS>/init
#[kani::proof]
#[kani::unwind(17)]
fn engine_init_k16_n16() { check_init::<16, 16>() }
// @harness props=C03,C16 kind=full tier=quick pairs=chacha/reference/impl<constROUNDS:usize>State<ROUNDS>/init
#[kani::proof]
#[kani::unwind(17)]
fn engine_init_k32_n8() { check_init::<32, 8>() }
// @harness props=C03,C16 kind=full tier=quick pairs=chacha/reference/impl<constROUNDS:usize>State<ROUNDS>/init
#[kani::proof]
#[kani::unwind(17)]
fn engine_init_k32_n12() { check_init::<32, 12>() }
// @harness props=C03,C16 kind=full tier=quick pairs=chacha/reference/impl<constROUNDS:usize>State<ROUNDS>/init
#[kani::proof]
#[kani::unwind(17)]
fn engine_init_k32_n16() { check_init::<32, 16>() }

// one iteration of the `rounds` loop (State<2>: ROUNDS/2 == 1) from every 16-word state: both engines run the same
// `for _ in 0..ROUNDS/2` repetition of this step, so equality of R/2 repetitions follows by induction on the loop
// (argument stated in DESIGN.md, not mechanised)
// @harness props=C03,C16 kind=full tier=quick timeout=900 pairs=chacha/reference/impl<constROUNDS:usize>State<ROUNDS>/rounds
#[kani::proof]
#[kani::unwind(17)]
fn engine_double_round() {
    let w: [u32; 16] = kani::any();
    let mut a = s_from::<2>(&w);
    let mut b = p_from::<2>(&w);
    a.rounds();
    b.rounds();
    assert!(eq16(&s_words(&a), &p_words(&b)));
    kani::cover!(true);
}
// @harness props=C03,C16 kind=full tier=quick pairs=chacha/reference/impl<constROUNDS:usize>State<ROUNDS>/add_back
#[kani::proof]
#[kani::unwind(17)]
fn engine_add_back() {
    let w: [u32; 16] = kani::any();
    let x: [u32; 16] = kani::any();
    let mut a = s_from::<20>(&w);
    let mut b = p_from::<20>(&w);
    a.add_back(&s_from::<20>(&x));
    b.add_back(&p_from::<20>(&x));
    let r = s_words(&a);
    assert!(eq16(&r, &p_words(&b)));
    let mut i = 0;
    while i < 16 {
        assert!(r[i] == w[i].wrapping_add(x[i]));
        i += 1;
    }
    kani::cover!(true);
}
// counters: set_counter writes word 12; increment is +1 mod 2^32 on word 12; increment64 carries into word 13
// @harness props=C03,C16,C20 kind=full tier=quick pairs=chacha/reference/impl<constROUNDS:usize>State<ROUNDS>/increment,chacha/reference/impl<constROUNDS:usize>State<ROUNDS>/increment64,chacha/reference/impl<constROUNDS:usize>State<ROUNDS>/set_counter
#[kani::proof]
#[kani::unwind(17)]
fn engine_counters() {
    let w: [u32; 16] = kani::any();
    let c: u32 = kani::any();
    let mut a = s_from::<20>(&w);
    let mut b = p_from::<20>(&w);
    a.set_counter(c);
    b.set_counter(c);
    let mut e = w;
    e[12] = c;
    assert!(eq16(&s_words(&a), &e) && eq16(&p_words(&b), &e), "set_counter");
    let mut a = s_from::<20>(&w);
    let mut b = p_from::<20>(&w);
    a.increment();
    b.increment();
    let mut e = w;
    e[12] = w[12].wrapping_add(1);
    assert!(eq16(&s_words(&a), &e) && eq16(&p_words(&b), &e), "increment");
    let mut a = s_from::<20>(&w);
    let mut b = p_from::<20>(&w);
    a.increment64();
    b.increment64();
    let mut e = w;
    let c64 = ((w[12] as u64) | ((w[13] as u64) << 32)).wrapping_add(1);
    e[12] = c64 as u32;
    e[13] = (c64 >> 32) as u32;
    assert!(eq16(&s_words(&a), &e) && eq16(&p_words(&b), &e), "increment64");
    kani::cover!(true);
}
// serialisation: 64 little-endian bytes of the 16 words; HChaCha output = words 0..3 and 12..15
// @harness props=C03,C16 kind=full tier=quick pairs=chacha/reference/impl<constROUNDS:usize>State<ROUNDS>/output_bytes,chacha/reference/impl<constROUNDS:usize>State<ROUNDS>/output_ad_bytes
#[kani::proof]
#[kani::unwind(65)]
fn engine_output() {
    let w: [u32; 16] = kani::any();
    let a = s_from::<20>(&w);
    let b = p_from::<20>(&w);
    let mut oa = [0u8; 64];
    let mut ob = [0u8; 64];
    a.output_bytes(&mut oa);
    b.output_bytes(&mut ob);
    let mut i = 0;
    while i < 64 {
        assert!(oa[i] == (w[i / 4] >> (8 * (i % 4))) as u8 && ob[i] == oa[i]);
        i += 1;
    }
    let mut ha = [0u8; 32];
    let mut hb = [0u8; 32];
    a.output_ad_bytes(&mut ha);
    b.output_ad_bytes(&mut hb);
    let mut i = 0;
    while i < 32 {
        let word = if i < 16 { w[i / 4] } else { w[12 + (i - 16) / 4] };
        assert!(ha[i] == (word >> (8 * (i % 4))) as u8 && hb[i] == ha[i]);
        i += 1;
    }
    kani::cover!(true);
}
