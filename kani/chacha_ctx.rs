//! host: src/chacha20.rs
//! Witness harnesses for the position semantics of the cipher contexts (C04) and refusal of invalid arguments (C20).
//! The unbounded statements are the Verus contracts of units/chacha.vtpl; these harnesses run the real, SSE2-backed
//! contexts on a concrete key (so the block function constant-folds) with symbolic data, and supply counterexamples.
use super::*;
use core::arch::x86_64::__m128i;

/// see kani/drg.rs: Kani reports wrapping lane addition as an overflow; the intrinsic is replaced by its definition
#[allow(dead_code)]
pub fn mm_add_epi32_def(a: __m128i, b: __m128i) -> __m128i {
    let x: [u32; 4] = unsafe { core::mem::transmute(a) };
    let y: [u32; 4] = unsafe { core::mem::transmute(b) };
    let z = [x[0].wrapping_add(y[0]), x[1].wrapping_add(y[1]), x[2].wrapping_add(y[2]), x[3].wrapping_add(y[3])];
    unsafe { core::mem::transmute(z) }
}
const KEY: [u8; 32] = [0x42; 32];
const NONCE: [u8; 12] = [9; 12];

// seek from the middle of a block: the next byte is the first byte of block n
// @harness props=C04 kind=bounded bound=key,nonce_fixed,rounds=8,consumed=5,block=3 tier=quick pairs=seek
#[kani::proof]
#[kani::stub(core::arch::x86_64::_mm_add_epi32, mm_add_epi32_def)]
#[kani::unwind(70)]
fn chacha_seek_mid_block() {
    let mut a = ChaCha::<8>::new(&KEY, &NONCE);
    let mut junk = [0u8; 5];
    a.process_mut(&mut junk);
    a.seek(3);
    let mut b = ChaCha::<8>::new(&KEY, &NONCE);
    b.seek(3);
    let d: [u8; 8] = kani::any();
    let mut x = d;
    let mut y = d;
    a.process_mut(&mut x);
    b.process_mut(&mut y);
    let mut i = 0;
    while i < 8 {
        assert!(x[i] == y[i]);
        i += 1;
    }
    kani::cover!(true);
}
// chunking and involution across a block boundary: 70 bytes as (5, 65) equal one call; a clone taken mid-stream continues
// identically; processing twice from the same position restores the input
// @harness props=C04 kind=bounded bound=key,nonce_fixed,rounds=8,len=70,cut=5 tier=thorough pairs=process_mut,process
#[kani::proof]
#[kani::stub(core::arch::x86_64::_mm_add_epi32, mm_add_epi32_def)]
#[kani::unwind(72)]
fn chacha_chunking_clone_involution() {
    let d: [u8; 70] = kani::any();
    let mut one = d;
    let mut a = ChaCha::<8>::new(&KEY, &NONCE);
    a.process_mut(&mut one);
    let mut two = [0u8; 70];
    let mut b = ChaCha::<8>::new(&KEY, &NONCE);
    b.process(&d[..5], &mut two[..5]);
    let mut c = b.clone();
    b.process(&d[5..], &mut two[5..]);
    let mut three = [0u8; 65];
    c.process(&d[5..], &mut three);
    let mut back = one;
    let mut e = ChaCha::<8>::new(&KEY, &NONCE);
    e.process_mut(&mut back);
    let mut i = 0;
    while i < 70 {
        assert!(one[i] == two[i]);
        assert!(back[i] == d[i]);
        if i >= 5 {
            assert!(three[i - 5] == one[i]);
        }
        i += 1;
    }
    kani::cover!(true);
}
// invalid arguments are refused (assert! / unreachable!) before anything is produced
// @harness props=C20 kind=bounded bound=keylen<=40 tier=quick expect=refuse
#[kani::proof]
#[kani::unwind(42)]
fn chacha_new_refuses_bad_key_length() {
    let k: [u8; 40] = kani::any();
    let n: usize = kani::any();
    kani::assume(n <= 40 && n != 16 && n != 32);
    let _ = ChaCha::<20>::new(&k[..n], &NONCE);
    kani::cover!(true);
}
// @harness props=C20 kind=full tier=quick expect=refuse
#[kani::proof]
fn chacha_new_refuses_bad_rounds() {
    let _ = ChaCha::<10>::new(&KEY, &NONCE);
    kani::cover!(true);
}
// @harness props=C20 kind=full tier=quick expect=refuse
#[kani::proof]
fn xchacha_new_refuses_bad_rounds() {
    let _ = XChaCha::<7>::new(&KEY, &[1u8; 24]);
    kani::cover!(true);
}
// @harness props=C20 kind=bounded bound=keylen<=40 tier=quick expect=refuse
#[kani::proof]
#[kani::unwind(42)]
fn chacha_original_new_refuses_bad_key_length() {
    let k: [u8; 40] = kani::any();
    let n: usize = kani::any();
    kani::assume(n <= 40 && n != 16 && n != 32);
    let _ = ChaChaOriginal::<20>::new(&k[..n], &[3u8; 8]);
    kani::cover!(true);
}
// @harness props=C20 kind=bounded bound=len=8_vs_7 tier=quick expect=refuse timeout=300
#[kani::proof]
#[kani::stub(core::arch::x86_64::_mm_add_epi32, mm_add_epi32_def)]
#[kani::unwind(70)]
fn chacha_process_refuses_length_mismatch() {
    let mut a = ChaCha::<8>::new(&KEY, &NONCE);
    let i = [0u8; 8];
    let mut o = [0u8; 8];
    a.process(&i[..8], &mut o[..7]);
    kani::cover!(true);
}
