//! host: src/hashing/sha2/impl256/mod.rs
//! C16, SHA-256 SSE4.1 path (not compiled by the default build: brought in with #[path], the real file):
//!  (1) message_schedule_4ways: lane j of schedule[i] == W_i(block j) + K_i, W_i the scalar FIPS 180-4 schedule;
//!  (2) compress_4ways: with schedule lanes = K+W of four consecutive blocks, the state equals four scalar compressions.
//! Symbolic blocks and chaining state.  These are miters of cipher-sized circuits: thorough tier only, with a time cap;
//! a timeout is reported as uncovered (undecided), never as a violation.
use super::*;
use core::arch::x86_64::*;

#[path = "../hashing/sha2/impl256/sse41.rs"]
#[allow(dead_code, unused_unsafe)]
mod sse41;

fn lane(x: __m128i, j: usize) -> u32 {
    let a: [u32; 4] = unsafe { core::mem::transmute(x) };
    a[j]
}
fn be32(b: &[u8], i: usize) -> u32 {
    ((b[4 * i] as u32) << 24) | ((b[4 * i + 1] as u32) << 16) | ((b[4 * i + 2] as u32) << 8) | (b[4 * i + 3] as u32)
}
fn s0(x: u32) -> u32 { x.rotate_right(7) ^ x.rotate_right(18) ^ (x >> 3) }
fn s1(x: u32) -> u32 { x.rotate_right(17) ^ x.rotate_right(19) ^ (x >> 10) }
/// Kani reports wrapping SIMD lane addition as an overflow: the intrinsic is replaced by its definition
#[allow(dead_code)]
pub fn mm_add_epi32_def(a: __m128i, b: __m128i) -> __m128i {
    let x: [u32; 4] = unsafe { core::mem::transmute(a) };
    let y: [u32; 4] = unsafe { core::mem::transmute(b) };
    let z = [x[0].wrapping_add(y[0]), x[1].wrapping_add(y[1]), x[2].wrapping_add(y[2]), x[3].wrapping_add(y[3])];
    unsafe { core::mem::transmute(z) }
}
/// `pshufb` (llvm.x86.ssse3.pshuf.b.128) is not modelled by Kani 0.68: replaced by its definition (Intel SDM: byte i of the
/// result is 0 if bit 7 of mask byte i is set, else byte (mask[i] & 15) of a)
#[allow(dead_code)]
pub fn mm_shuffle_epi8_def(a: __m128i, m: __m128i) -> __m128i {
    let x: [u8; 16] = unsafe { core::mem::transmute(a) };
    let k: [u8; 16] = unsafe { core::mem::transmute(m) };
    let mut r = [0u8; 16];
    let mut i = 0;
    while i < 16 {
        r[i] = if k[i] & 0x80 != 0 { 0 } else { x[(k[i] & 15) as usize] };
        i += 1;
    }
    unsafe { core::mem::transmute(r) }
}
// @attempt (not run: no verdict within 25 minutes of CBMC) props=C16 kind=full tier=thorough timeout=1500
#[kani::proof]
#[kani::stub(core::arch::x86_64::_mm_add_epi32, mm_add_epi32_def)]
#[kani::stub(core::arch::x86_64::_mm_shuffle_epi8, mm_shuffle_epi8_def)]
#[kani::unwind(65)]
fn sha256_sse41_schedule_matches_scalar() {
    let msg: [u8; 256] = kani::any();
    let mut sched = unsafe { [_mm_set1_epi32(0); 64] };
    unsafe { sse41::message_schedule_4ways(&mut sched, &msg) };
    let j: usize = kani::any();
    kani::assume(j < 4);
    let blk = &msg[64 * j..64 * j + 64];
    let mut w = [0u32; 64];
    let mut i = 0;
    while i < 16 {
        w[i] = be32(blk, i);
        i += 1;
    }
    while i < 64 {
        w[i] = s1(w[i - 2]).wrapping_add(w[i - 7]).wrapping_add(s0(w[i - 15])).wrapping_add(w[i - 16]);
        i += 1;
    }
    let mut i = 0;
    while i < 64 {
        assert!(lane(sched[i], j) == w[i].wrapping_add(reference::K32[i]));
        i += 1;
    }
    kani::cover!(true);
}
