//! host: src/cryptoutil.rs
//! Contracts of the byte/word conversion helpers that Verus units use as contract-only stubs.
use super::*;

fn le4(x: u32) -> [u8; 4] {
    [(x % 256) as u8, ((x / 256) % 256) as u8, ((x / 65536) % 256) as u8, ((x / 16777216) % 256) as u8]
}

// read_u32_le(b) == b0 + b1*2^8 + b2*2^16 + b3*2^24
// @harness props=C05,C01,C03,C20 kind=full tier=quick
#[kani::proof]
fn cryptoutil_read_u32_le() {
    let b: [u8; 4] = kani::any();
    let r = read_u32_le(&b);
    assert!(r as u64 == b[0] as u64 + b[1] as u64 * 0x100 + b[2] as u64 * 0x10000 + b[3] as u64 * 0x1000000);
    kani::cover!(true);
}
// write_u32_le(dst, x): dst == [x%256, x/256%256, x/65536%256, x/2^24%256]; write_u32_be the reverse
// @harness props=C05,C01,C03,C20 kind=full tier=quick
#[kani::proof]
fn cryptoutil_write_u32() {
    let x: u32 = kani::any();
    let mut d = [0u8; 4];
    write_u32_le(&mut d, x);
    let e = le4(x);
    assert!(d[0] == e[0] && d[1] == e[1] && d[2] == e[2] && d[3] == e[3]);
    let mut f = [0u8; 4];
    write_u32_be(&mut f, x);
    assert!(f[0] == e[3] && f[1] == e[2] && f[2] == e[1] && f[3] == e[0]);
    kani::cover!(true);
}
// a length other than 4 is refused (the unwrap of try_from)
// @harness props=C20 kind=bounded bound=len<=8 tier=quick expect=refuse
#[kani::proof]
fn cryptoutil_read_u32_le_refuses_bad_len() {
    let b: [u8; 8] = kani::any();
    let n: usize = kani::any();
    kani::assume(n <= 8 && n != 4);
    let _ = read_u32_le(&b[..n]);
    kani::cover!(true);
}

// write_u32v_le(dst, src): dst == little-endian bytes of the words, at the two lengths the crate's callers use through
// the ChaCha/Salsa engines (16 words -> 64 bytes, 4 words -> 16 bytes); contract text of the Verus stub in
// units/inc/cryptoutil_stream_stubs.rs
// @harness props=C03,C04,C16,C20 kind=full tier=quick
#[kani::proof]
#[kani::unwind(65)]
fn cryptoutil_write_u32v_le_16_and_4() {
    let w: [u32; 16] = kani::any();
    let mut d = [0u8; 64];
    write_u32v_le(&mut d, &w);
    let mut i = 0;
    while i < 64 {
        assert!(d[i] == (w[i / 4] >> (8 * (i % 4))) as u8);
        i += 1;
    }
    let mut e = [0u8; 16];
    write_u32v_le(&mut e, &w[3..7]);
    let mut i = 0;
    while i < 16 {
        assert!(e[i] == (w[3 + i / 4] >> (8 * (i % 4))) as u8);
        i += 1;
    }
    kani::cover!(true);
}
// a destination whose length is not 4 * words is refused
// @harness props=C20 kind=bounded bound=len<=20,words=4 tier=quick expect=refuse
#[kani::proof]
#[kani::unwind(21)]
fn cryptoutil_write_u32v_le_refuses_bad_len() {
    let w: [u32; 4] = kani::any();
    let mut d = [0u8; 20];
    let n: usize = kani::any();
    kani::assume(n <= 20 && n != 16);
    write_u32v_le(&mut d[..n], &w);
    kani::cover!(true);
}
// xor_keystream_mut(buf, ks): buf'[i] == buf[i] ^ ks[i] for i < len(buf), nothing else written, for every buf length <= L
// and every keystream length in len(buf)..=L.  Its callers pass at most one 64-byte block.  Bounded in length only.
fn check_xor_keystream<const L: usize>() {
    let mut b: [u8; L] = kani::any();
    let k: [u8; L] = kani::any();
    let b0 = b;
    let n: usize = kani::any();
    let m: usize = kani::any();
    kani::assume(n <= m && m <= L && n + 2 <= L);
    xor_keystream_mut(&mut b[1..1 + n], &k[..m]);
    let mut i = 0;
    while i < L {
        if i >= 1 && i < 1 + n {
            assert!(b[i] == b0[i] ^ k[i - 1]);
        } else {
            assert!(b[i] == b0[i]);
        }
        i += 1;
    }
    kani::cover!(true);
}
// @harness props=C04,C03,C20 kind=bounded bound=len<=22 tier=quick
#[kani::proof]
#[kani::unwind(26)]
fn cryptoutil_xor_keystream_mut_24() { check_xor_keystream::<24>() }
// @harness props=C04,C03,C20 kind=bounded bound=len<=64 tier=thorough timeout=1200
#[kani::proof]
#[kani::unwind(68)]
fn cryptoutil_xor_keystream_mut_66() { check_xor_keystream::<66>() }
// a keystream shorter than the buffer is refused
// @harness props=C20 kind=bounded bound=len<=16 tier=quick expect=refuse
#[kani::proof]
#[kani::unwind(18)]
fn cryptoutil_xor_keystream_mut_refuses_short_keystream() {
    let mut b: [u8; 16] = kani::any();
    let k: [u8; 16] = kani::any();
    let n: usize = kani::any();
    let m: usize = kani::any();
    kani::assume(n <= 16 && m < n);
    xor_keystream_mut(&mut b[..n], &k[..m]);
    kani::cover!(true);
}
// write_u64_le(dst, x): the eight little-endian bytes of x (contract text of the Verus stub in units/inc/cryptoutil_stubs.rs)
// @harness props=C06,C07,C01,C20 kind=full tier=quick
#[kani::proof]
#[kani::unwind(9)]
fn cryptoutil_write_u64_le() {
    let x: u64 = kani::any();
    let mut d = [0u8; 8];
    write_u64_le(&mut d, x);
    let mut i = 0;
    while i < 8 {
        assert!(d[i] == (x >> (8 * i)) as u8);
        i += 1;
    }
    kani::cover!(true);
}
// zero(dst): every byte of dst becomes 0 and nothing else is written (contract of the Verus stub `zero`), lengths 0..=130
// covers every call site (block buffers of 64 and 128 bytes, their tails)
// @harness props=C01,C02,C20 kind=bounded bound=len<=24 tier=quick
#[kani::proof]
#[kani::unwind(28)]
fn cryptoutil_zero() {
    let mut b: [u8; 26] = kani::any();
    let b0 = b;
    let n: usize = kani::any();
    kani::assume(n <= 24);
    zero(&mut b[1..1 + n]);
    let mut i = 0;
    while i < 26 {
        if i >= 1 && i < 1 + n { assert!(b[i] == 0); } else { assert!(b[i] == b0[i]); }
        i += 1;
    }
    kani::cover!(true);
}
// write_u64v_le / write_u32v_le at the lengths of the BLAKE2 serialisations (8 words) and read_u64v_le / read_u32v_le at
// the compression functions' 16 words
// @harness props=C01,C02,C20 kind=full tier=quick
#[kani::proof]
#[kani::unwind(130)]
fn cryptoutil_blake2_word_io() {
    let w: [u64; 8] = kani::any();
    let mut d = [0u8; 64];
    write_u64v_le(&mut d, &w);
    let mut i = 0;
    while i < 64 { assert!(d[i] == (w[i / 8] >> (8 * (i % 8))) as u8); i += 1; }
    let v: [u32; 8] = kani::any();
    let mut e = [0u8; 32];
    write_u32v_le(&mut e, &v);
    let mut i = 0;
    while i < 32 { assert!(e[i] == (v[i / 4] >> (8 * (i % 4))) as u8); i += 1; }
    let src: [u8; 128] = kani::any();
    let mut m = [0u64; 16];
    read_u64v_le(&mut m, &src);
    let mut i = 0;
    while i < 16 {
        let mut x = 0u64; let mut j = 0;
        while j < 8 { x |= (src[8 * i + j] as u64) << (8 * j); j += 1; }
        assert!(m[i] == x);
        i += 1;
    }
    let mut n = [0u32; 16];
    read_u32v_le(&mut n, &src[..64]);
    let mut i = 0;
    while i < 16 {
        let x = (src[4 * i] as u32) | ((src[4 * i + 1] as u32) << 8) | ((src[4 * i + 2] as u32) << 16) | ((src[4 * i + 3] as u32) << 24);
        assert!(n[i] == x);
        i += 1;
    }
    kani::cover!(true);
}
// big-endian word conversions at the lengths of the SHA-1 / SHA-2 call sites: read_u32v_be (16 words), read_u64v_be (16 words),
// write_u32v_be (8 and 7 words), write_u64v_be (8, 6, 4, 3 words)
// @harness props=C01,C20 kind=full tier=quick timeout=600
#[kani::proof]
#[kani::unwind(130)]
fn cryptoutil_be_word_io() {
    let src: [u8; 128] = kani::any();
    let mut m = [0u32; 16];
    read_u32v_be(&mut m, &src[..64]);
    let mut i = 0;
    while i < 16 {
        let x = ((src[4 * i] as u32) << 24) | ((src[4 * i + 1] as u32) << 16) | ((src[4 * i + 2] as u32) << 8) | (src[4 * i + 3] as u32);
        assert!(m[i] == x);
        i += 1;
    }
    let mut n = [0u64; 16];
    read_u64v_be(&mut n, &src);
    let mut i = 0;
    while i < 16 {
        let mut x = 0u64;
        let mut j = 0;
        while j < 8 { x = (x << 8) | src[8 * i + j] as u64; j += 1; }
        assert!(n[i] == x);
        i += 1;
    }
    let w: [u32; 8] = kani::any();
    let mut d = [0u8; 32];
    write_u32v_be(&mut d, &w);
    let mut i = 0;
    while i < 32 { assert!(d[i] == (w[i / 4] >> (8 * (3 - i % 4))) as u8); i += 1; }
    let mut e = [0u8; 28];
    write_u32v_be(&mut e, &w[0..7]);
    let mut i = 0;
    while i < 28 { assert!(e[i] == (w[i / 4] >> (8 * (3 - i % 4))) as u8); i += 1; }
    let v: [u64; 8] = kani::any();
    let mut f = [0u8; 64];
    write_u64v_be(&mut f, &v);
    let mut i = 0;
    while i < 64 { assert!(f[i] == (v[i / 8] >> (8 * (7 - i % 8))) as u8); i += 1; }
    let mut g = [0u8; 24];
    write_u64v_be(&mut g, &v[0..3]);
    let mut i = 0;
    while i < 24 { assert!(g[i] == (v[i / 8] >> (8 * (7 - i % 8))) as u8); i += 1; }
    kani::cover!(true);
}

// xor_array64_mut (iter_mut().zip(); contract-only stub in unit argon2): lhs'[i] == lhs[i] ^ rhs[i] for the 128-word Argon2 block
// @harness props=C11,C20 kind=full tier=quick timeout=600
#[kani::proof]
#[kani::unwind(130)]
fn cryptoutil_xor_array64_mut_128() {
    let a0: [u64; 128] = kani::any();
    let b: [u64; 128] = kani::any();
    let mut a = a0;
    xor_array64_mut(&mut a, &b);
    let mut i = 0;
    while i < 128 {
        assert!(a[i] == a0[i] ^ b[i]);
        i += 1;
    }
    kani::cover!(true);
}

// read_u64v_le / write_u64v_le at the 25 lanes of the Keccak state (contract-only stubs in unit sha3): little-endian lanes
// @harness props=C01,C20 kind=full tier=quick timeout=600
#[kani::proof]
#[kani::unwind(201)]
fn cryptoutil_le64_lane_io() {
    let src: [u8; 200] = kani::any();
    let mut lanes = [0u64; 25];
    read_u64v_le(&mut lanes, &src);
    let i: usize = kani::any();
    kani::assume(i < 25);
    let mut e = 0u64;
    let mut j = 0;
    while j < 8 {
        e |= (src[8 * i + j] as u64) << (8 * j);
        j += 1;
    }
    assert!(lanes[i] == e);
    let w: [u64; 25] = kani::any();
    let mut out = [0u8; 200];
    write_u64v_le(&mut out, &w);
    let k: usize = kani::any();
    kani::assume(k < 200);
    assert!(out[k] == (w[k / 8] >> (8 * (k % 8))) as u8);
    kani::cover!(true);
}
