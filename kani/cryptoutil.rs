//! host: src/cryptoutil.rs
//! Contracts of the byte/word conversion helpers that Verus units use as contract-only stubs.
use super::*;

fn le4(x: u32) -> [u8; 4] {
    [(x % 256) as u8, ((x / 256) % 256) as u8, ((x / 65536) % 256) as u8, ((x / 16777216) % 256) as u8]
}

// read_u32_le(b) == b0 + b1*2^8 + b2*2^16 + b3*2^24
// @harness props=C05,C01,C03,C20 kind=full tier=quick
#[kani::proof]
fn cryptoutil_read_u32_le() {
    let b: [u8; 4] = kani::any();
    let r = read_u32_le(&b);
    assert!(r as u64 == b[0] as u64 + b[1] as u64 * 0x100 + b[2] as u64 * 0x10000 + b[3] as u64 * 0x1000000);
    kani::cover!(true);
}
// write_u32_le(dst, x): dst == [x%256, x/256%256, x/65536%256, x/2^24%256]; write_u32_be the reverse
// @harness props=C05,C01,C03,C20 kind=full tier=quick
#[kani::proof]
fn cryptoutil_write_u32() {
    let x: u32 = kani::any();
    let mut d = [0u8; 4];
    write_u32_le(&mut d, x);
    let e = le4(x);
    assert!(d[0] == e[0] && d[1] == e[1] && d[2] == e[2] && d[3] == e[3]);
    let mut f = [0u8; 4];
    write_u32_be(&mut f, x);
    assert!(f[0] == e[3] && f[1] == e[2] && f[2] == e[1] && f[3] == e[0]);
    kani::cover!(true);
}
// a length other than 4 is refused (the unwrap of try_from)
// @harness props=C20 kind=bounded bound=len<=8 tier=quick expect=refuse
#[kani::proof]
fn cryptoutil_read_u32_le_refuses_bad_len() {
    let b: [u8; 8] = kani::any();
    let n: usize = kani::any();
    kani::assume(n <= 8 && n != 4);
    let _ = read_u32_le(&b[..n]);
    kani::cover!(true);
}
