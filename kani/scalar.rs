//! host: src/curve25519/scalar/scalar64.rs
//! C15 / C13 for the linear part of the scalar arithmetic modulo L (64-bit backend): `add` (limb addition + one conditional
//! subtraction), `reduce256` (borrow chain + masked select) against byte-wise big-integer arithmetic written out in the harness.
//! Complete over all canonical operands (no multiplications, constant loop bounds).  `mul` / Barrett reduction are NOT covered
//! (25 + 25 + 15 64x64->128 products: beyond the SAT back end; an assumed layer of unit ed25519).
use super::*;

const L_LE: [u8; 32] = [0xed, 0xd3, 0xf5, 0x5c, 0x1a, 0x63, 0x12, 0x58, 0xd6, 0x9c, 0xf7, 0xa2, 0xde, 0xf9, 0xde, 0x14,
                        0, 0, 0, 0, 0, 0, 0, 0, 0, 0, 0, 0, 0, 0, 0, 0x10];
/// a + b as 33 little-endian bytes
fn big_add(a: &[u8; 32], b: &[u8; 32]) -> [u8; 33] {
    let mut o = [0u8; 33];
    let mut c = 0u16;
    let mut i = 0;
    while i < 32 {
        let t = a[i] as u16 + b[i] as u16 + c;
        o[i] = t as u8;
        c = t >> 8;
        i += 1;
    }
    o[32] = c as u8;
    o
}
/// x >= L for a 33-byte value
fn big_ge_l(x: &[u8; 33]) -> bool {
    if x[32] != 0 {
        return true;
    }
    let mut i = 32;
    while i > 0 {
        i -= 1;
        if x[i] > L_LE[i] {
            return true;
        }
        if x[i] < L_LE[i] {
            return false;
        }
    }
    true
}
/// x - L (x >= L), low 32 bytes
fn big_sub_l(x: &[u8; 33]) -> [u8; 32] {
    let mut o = [0u8; 32];
    let mut br = 0i16;
    let mut i = 0;
    while i < 32 {
        let t = x[i] as i16 - L_LE[i] as i16 - br;
        if t < 0 {
            o[i] = (t + 256) as u8;
            br = 1;
        } else {
            o[i] = t as u8;
            br = 0;
        }
        i += 1;
    }
    o
}
// add(x, y) == (x + y) mod L for all canonical x, y (2^504 operand pairs)
// @harness props=C15,C13 kind=full tier=quick timeout=900
#[kani::proof]
#[kani::unwind(34)]
fn scalar_add_is_addition_mod_l() {
    let xb: [u8; 32] = kani::any();
    let yb: [u8; 32] = kani::any();
    let x = Scalar::from_bytes_canonical(&xb);
    let y = Scalar::from_bytes_canonical(&yb);
    kani::assume(x.is_some() && y.is_some());
    let r = add(&x.unwrap(), &y.unwrap()).to_bytes();
    let s = big_add(&xb, &yb);
    let want = if big_ge_l(&s) { big_sub_l(&s) } else { let mut w = [0u8; 32]; let mut i = 0; while i < 32 { w[i] = s[i]; i += 1; } w };
    let mut i = 0;
    while i < 32 {
        assert!(r[i] == want[i], "add == (x + y) mod L");
        i += 1;
    }
    kani::cover!(true);
}
// reduce256(r) == r - L if r >= L else r, for every 256-bit value in limb form (56-bit limbs, 32-bit top limb)
// @harness props=C15,C13 kind=full tier=quick timeout=900
#[kani::proof]
#[kani::unwind(34)]
fn scalar_reduce256_is_one_conditional_subtraction() {
    let b: [u8; 32] = kani::any();
    let s = Scalar::from_bytes(&b);
    let out = Scalar(reduce256(s.0)).to_bytes();
    let mut x = [0u8; 33];
    let mut i = 0;
    while i < 32 {
        x[i] = b[i];
        i += 1;
    }
    // the top limb of from_bytes holds 32 bits: every 256-bit value is reachable; values >= 2L are outside reduce256's use
    let want = if big_ge_l(&x) { big_sub_l(&x) } else { b };
    let mut i = 0;
    while i < 32 {
        assert!(out[i] == want[i], "reduce256 == conditional subtraction of L");
        i += 1;
    }
    kani::cover!(true);
}
// from_bytes: limb k is bits 56k .. 56k+55 of the little-endian value (7 bytes per limb, 4 bytes for the top limb), for all 2^256
// encodings; with to_bytes(from_bytes(b)) == b (kani:backend:scalar_views_are_the_encoding) this fixes to_bytes on every
// normalised limb vector as well, i.e. the value view v5 of the Verus unit scalar64 is the little-endian integer of the bytes
// @harness props=C15,C13,C14 kind=full tier=quick timeout=600
#[kani::proof]
#[kani::unwind(9)]
fn scalar_from_bytes_limbs_are_the_le_value() {
    let b: [u8; 32] = kani::any();
    let s = Scalar::from_bytes(&b);
    let mut k = 0;
    while k < 5 {
        let n = if k < 4 { 7 } else { 4 };
        let mut e = 0u64;
        let mut j = 0;
        while j < n {
            e |= (b[7 * k + j] as u64) << (8 * j);
            j += 1;
        }
        assert!(s.0[k] == e, "limb k == bits 56k.. of le(b)");
        k += 1;
    }
    kani::cover!(true);
}
