#!/usr/bin/env python3
"""units/sha1.vtpl: proof hints of the unrolled SHA-1 block function (20 groups of 4 rounds in SHA-NI emulation style, 16 message
schedule steps) are generated (authoring aid; the generated file is committed and is what the checks read)"""
import os
R = os.path.dirname(os.path.dirname(os.path.abspath(__file__)))


def hints():
    o = []
    o.append('//%% at let h0 before')
    o.append('    let ghost hh = state@;')
    o.append('    let ghost m = block@;')
    o.append('    proof { lemma_rounds0(hh, m); lemma_w_base(m); }')
    o.append('//%% at let h0 after')
    o.append('    proof { assert(st5(h0, hh[4]) =~= hh); }')
    for k in range(1, 17):
        g = k + 3
        reg = 'w%d' % (g % 5)
        o.append('//%%%% at call %d sha1msg2 after' % k)
        o.append('    proof {')
        for i in range(4):
            o.append('        lemma_w(m, %d);' % (4 * g + i))
        o.append('        assert(%s.0 == wsched(m, %d) && %s.1 == wsched(m, %d) && %s.2 == wsched(m, %d) && %s.3 == wsched(m, %d));'
                 % (reg, 4 * g, reg, 4 * g + 1, reg, 4 * g + 2, reg, 4 * g + 3))
        o.append('    }')
    for g in range(20):
        cur, prev = ('h1', 'h0') if g % 2 == 0 else ('h0', 'h1')
        reg = 'w%d' % (g % 5)
        o.append('//%%%% at call %d sha1_digest_round_x4 before' % (g + 1))
        if g > 0:
            o.append('    let ghost p%d = %s;' % (g, cur))          # the variable about to be overwritten holds the pair's older half
        else:
            o.append('    proof { }')
        o.append('//%%%% at call %d sha1_digest_round_x4 after' % (g + 1))
        o.append('    proof {')
        e0 = 'hh[4]' if g == 0 else 'rotl32(p%d.0, 30)' % g
        o.append('        lemma_group(%s, %s, %d, %s.0, %s.1, %s.2, %s.3);' % (prev, e0, g // 5, reg, reg, reg, reg))
        o.append('        lemma_rounds4(hh, m, %d);' % (4 * g))
        o.append('        assert(st5(%s, rotl32(%s.0, 30)) =~= rounds(hh, m, %d));' % (cur, prev, 4 * g + 4))
        o.append('    }')
    o.append('//%% at fn-end')
    o.append('    proof {')
    o.append('        let r = rounds(hh, m, 80);')
    o.append('        lemma_add_def(hh[0], r[0]); lemma_add_def(hh[1], r[1]); lemma_add_def(hh[2], r[2]); lemma_add_def(hh[3], r[3]); lemma_add_def(hh[4], r[4]);')
    o.append('        assert(state@ =~= sha1_compress(hh, m));')
    o.append('    }')
    return "\n".join(o)


t = open(os.path.join(R, 'units', 'gen', 'sha1.tmpl')).read()
t = t.replace('@HINTS@', hints())
open(os.path.join(R, 'units', 'sha1.vtpl'), 'w').write(t)
print('generated')
