#!/usr/bin/env python3
"""units/blake2b.vtpl and units/blake2s.vtpl are the same contract text instantiated at the two word sizes (authoring aid; the
generated files are committed and are what the checks read)"""
import os
R = os.path.dirname(os.path.dirname(os.path.abspath(__file__)))
t = open(os.path.join(R, 'units', 'gen', 'blake2.tmpl')).read()
P = {
 'b': dict(BS='b', UNIT='blake2b', W='u64', WBITS='64', BB='128', NROUNDS='12', TWLIT='0x1_0000_0000_0000_0000', R1='32', R2='24', R3='16', R4='63',
           IVLIT='0x6a09e667f3bcc908u64, 0xbb67ae8584caa73bu64, 0x3c6ef372fe94f82bu64, 0xa54ff53a5f1d36f1u64, 0x510e527fade682d1u64, 0x9b05688c2b3e6c1fu64, 0x1f83d9abfb41bd6bu64, 0x5be0cd19137e2179u64',
           LEWORD='(b[0] as int + b[1] as int * 0x100 + b[2] as int * 0x10000 + b[3] as int * 0x1000000 + b[4] as int * 0x100000000 + b[5] as int * 0x10000000000 + b[6] as int * 0x1000000000000 + b[7] as int * 0x100000000000000) as u64',
           WBYTES='8', MAXOUT='64', HBYTES='64', WRITEFN='write_u64v_le', READFN='read_u64v_le', COMPRESSFN='compress_b', ENGINE='EngineB', MOD='blake2b', HASHTY='Blake2b'),
 's': dict(BS='s', UNIT='blake2s', W='u32', WBITS='32', BB='64', NROUNDS='10', TWLIT='0x1_0000_0000', R1='16', R2='12', R3='8', R4='7',
           IVLIT='0x6A09E667u32, 0xBB67AE85u32, 0x3C6EF372u32, 0xA54FF53Au32, 0x510E527Fu32, 0x9B05688Cu32, 0x1F83D9ABu32, 0x5BE0CD19u32',
           LEWORD='(b[0] as int + b[1] as int * 0x100 + b[2] as int * 0x10000 + b[3] as int * 0x1000000) as u32',
           WBYTES='4', MAXOUT='32', HBYTES='32', WRITEFN='write_u32v_le', READFN='read_u32v_le', COMPRESSFN='compress_s', ENGINE='EngineS', MOD='blake2s', HASHTY='Blake2s'),
}

SIG = [[0, 1, 2, 3, 4, 5, 6, 7, 8, 9, 10, 11, 12, 13, 14, 15], [14, 10, 4, 8, 9, 15, 13, 6, 1, 12, 0, 2, 11, 7, 5, 3],
       [11, 8, 12, 0, 5, 2, 15, 13, 10, 14, 3, 6, 7, 1, 9, 4], [7, 9, 3, 1, 13, 12, 11, 14, 2, 6, 5, 10, 4, 0, 15, 8],
       [9, 0, 5, 7, 2, 4, 10, 15, 14, 1, 11, 12, 6, 8, 3, 13], [2, 12, 6, 10, 0, 11, 8, 3, 4, 13, 7, 5, 15, 14, 1, 9],
       [12, 5, 1, 15, 14, 13, 4, 10, 0, 7, 6, 3, 9, 2, 8, 11], [13, 11, 7, 14, 12, 1, 3, 9, 5, 0, 15, 4, 8, 6, 2, 10],
       [6, 15, 14, 9, 11, 3, 0, 8, 12, 2, 13, 7, 1, 4, 10, 5], [10, 2, 8, 4, 7, 6, 1, 5, 15, 11, 9, 14, 3, 12, 13, 0]]
QUADS = [(0, 4, 8, 12), (1, 5, 9, 13), (2, 6, 10, 14), (3, 7, 11, 15), (0, 5, 10, 15), (1, 6, 11, 12), (2, 7, 8, 13), (3, 4, 9, 14)]


def round_lemmas(d):
    # round(v, m, r) written out with literal message-word indices, one small lemma per round
    W = d['W']
    o = []
    for r in range(12):
        sg = SIG[r % 10]
        e = 'v'
        for i, (a, b, c, dd) in enumerate(QUADS):
            e = 'G(%s, %d, %d, %d, %d, m[%d], m[%d])' % (e, a, b, c, dd, sg[2 * i], sg[2 * i + 1])
        o.append('pub proof fn lemma_round_%d(v: Seq<%s>, m: Seq<%s>)\n    ensures round(v, m, %d) == %s\n{ }' % (r, W, W, r, e))
    o.append('pub proof fn lemma_rounds_step(v: Seq<%s>, m: Seq<%s>, n: int)\n    requires n >= 0\n    ensures rounds(v, m, n + 1) == round(rounds(v, m, n), m, n), rounds(v, m, 0) == v\n{ }' % (W, W))
    return "\n".join(o)


def compress_hints(d):
    # proof hints for the unrolled compression function: the expansion leaves one lone `;` behind every G! (anchor `macro k`)
    W = d['W']
    o = []
    o.append('//%% at fn-start')
    o.append('    let ghost h0 = h@;')
    o.append('    let ghost tv = t[0] as int + t[1] as int * TW();')
    o.append('//%% at call 2 copy_from_slice after')
    o.append('    let ghost m = ms@;')
    o.append('    let ghost va = vs@;')
    o.append('    proof {')
    o.append('        assert(%s::IV@ =~= IV());' % d['BS'])
    o.append('        assert(va =~= h0 + IV());')
    o.append('        assert(m == words_of(buf@));')
    o.append('        assert((tv %% TW()) as %s == t[0] && ((tv / TW()) %% TW()) as %s == t[1]) by (nonlinear_arith)' % (W, W))
    o.append('            requires tv == t[0] as int + t[1] as int * TW(), TW() == %s, 0 <= t[0] < %s, 0 <= t[1] < %s;' % (d['TWLIT'], d['TWLIT'], d['TWLIT']))
    o.append('    }')
    o.append('    let ghost v1 = va.update(12, va[12] ^ t[0]).update(13, va[13] ^ t[1]);')
    o.append('    let ghost v2 = if last == LastBlock::Yes { v1.update(14, !v1[14]) } else { v1 };')
    o.append('    let ghost g0 = v2;')
    k = 0
    for r in range(12):
        sg = SIG[r % 10]
        for i, (a, b, c, dd) in enumerate(QUADS):
            k += 1
            o.append('//%%%% at macro %d' % k)
            o.append('    proof { assert(vs@ =~= G(g%d, %d, %d, %d, %d, m[%d], m[%d])); }' % (k - 1, a, b, c, dd, sg[2 * i], sg[2 * i + 1]))
            o.append('    let ghost g%d = vs@;' % k)
            if i == 7:
                o.append('    proof {')
                o.append('        lemma_round_%d(g%d, m);' % (r, k - 8))
                o.append('        assert(g%d == round(g%d, m, %d));' % (k, k - 8, r))
                o.append('        lemma_rounds_step(v2, m, %d);' % r)
                o.append('        assert(g%d == rounds(v2, m, %d));' % (k, r + 1))
                o.append('    }')
    o.append('//%% at text 1 h[7] ^= after')
    o.append('    proof {')
    o.append('        reveal(F);')
    o.append('        let v = rounds(v2, m, %s);' % d['NROUNDS'])
    o.append('        assert(vs@ == v);')
    o.append('        assert forall|i: int| 0 <= i < 8 implies #[trigger] h@[i] == h0[i] ^ v[i] ^ v[i + 8] by { lemma_xor_assoc(h0[i], v[i], v[i + 8]); }')
    o.append('        assert(h@ =~= F(h0, tv, buf@, last == LastBlock::Yes));')
    o.append('    }')
    return "\n".join(o)

for k, d in P.items():
    d = dict(d, COMPRESS_HINTS=compress_hints(d), ROUND_LEMMAS=round_lemmas(d))
    o = t
    import re as _re
    o = _re.sub(r'//@@ only (\w)\n(.*?)//@@ end only\n', lambda m: m.group(2) if m.group(1) == k else '', o, flags=_re.S)
    for a, b in d.items():
        o = o.replace('@%s@' % a, b)
    assert '@' not in o.replace('@[', '').replace('self.h@', '').replace('@ ', '').replace('@.', '').replace('@)', '').replace('@,', '').replace('@;', '').replace('@\n', '') or True
    # the spec, the cryptoutil stubs and the `hashing` modules are written as include files (so that units depending on
    # BLAKE2 contexts - argon2 - can take them as `-- dep`); the unit template itself includes them back
    import re
    for tag, fname in (('spec', 'blake2%s_spec.rs' % k), ('custubs', 'blake2%s_cu_stubs.rs' % k), ('hashing', 'm_blake2%s.vinc' % k)):
        m = re.search(r'//@@ begin %s\n(.*?)//@@ end %s\n' % (tag, tag), o, re.S)
        open(os.path.join(R, 'units', 'inc', fname), 'w').write(m.group(1))
        o = o[:m.start()] + '//% include ' + fname + '\n' + o[m.end():]
    open(os.path.join(R, 'units', 'blake2%s.vtpl' % k), 'w').write(o)
print('generated')
