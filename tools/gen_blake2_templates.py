#!/usr/bin/env python3
"""units/blake2b.vtpl and units/blake2s.vtpl are the same contract text instantiated at the two word sizes (authoring aid; the
generated files are committed and are what the checks read)"""
import os
R = os.path.dirname(os.path.dirname(os.path.abspath(__file__)))
t = open(os.path.join(R, 'units', 'gen', 'blake2.tmpl')).read()
P = {
 'b': dict(BS='b', UNIT='blake2b', W='u64', WBITS='64', BB='128', NROUNDS='12', TWLIT='0x1_0000_0000_0000_0000', R1='32', R2='24', R3='16', R4='63',
           IVLIT='0x6a09e667f3bcc908u64, 0xbb67ae8584caa73bu64, 0x3c6ef372fe94f82bu64, 0xa54ff53a5f1d36f1u64, 0x510e527fade682d1u64, 0x9b05688c2b3e6c1fu64, 0x1f83d9abfb41bd6bu64, 0x5be0cd19137e2179u64',
           LEWORD='(b[0] as int + b[1] as int * 0x100 + b[2] as int * 0x10000 + b[3] as int * 0x1000000 + b[4] as int * 0x100000000 + b[5] as int * 0x10000000000 + b[6] as int * 0x1000000000000 + b[7] as int * 0x100000000000000) as u64',
           WBYTES='8', MAXOUT='64', HBYTES='64', WRITEFN='write_u64v_le', COMPRESSFN='compress_b', ENGINE='EngineB', MOD='blake2b', HASHTY='Blake2b'),
 's': dict(BS='s', UNIT='blake2s', W='u32', WBITS='32', BB='64', NROUNDS='10', TWLIT='0x1_0000_0000', R1='16', R2='12', R3='8', R4='7',
           IVLIT='0x6A09E667u32, 0xBB67AE85u32, 0x3C6EF372u32, 0xA54FF53Au32, 0x510E527Fu32, 0x9B05688Cu32, 0x1F83D9ABu32, 0x5BE0CD19u32',
           LEWORD='(b[0] as int + b[1] as int * 0x100 + b[2] as int * 0x10000 + b[3] as int * 0x1000000) as u32',
           WBYTES='4', MAXOUT='32', HBYTES='32', WRITEFN='write_u32v_le', COMPRESSFN='compress_s', ENGINE='EngineS', MOD='blake2s', HASHTY='Blake2s'),
}
for k, d in P.items():
    o = t
    import re as _re
    o = _re.sub(r'//@@ only (\w)\n(.*?)//@@ end only\n', lambda m: m.group(2) if m.group(1) == k else '', o, flags=_re.S)
    for a, b in d.items():
        o = o.replace('@%s@' % a, b)
    assert '@' not in o.replace('@[', '').replace('self.h@', '').replace('@ ', '').replace('@.', '').replace('@)', '').replace('@,', '').replace('@;', '').replace('@\n', '') or True
    # the spec, the cryptoutil stubs and the `hashing` modules are written as include files (so that units depending on
    # BLAKE2 contexts - argon2 - can take them as `-- dep`); the unit template itself includes them back
    import re
    for tag, fname in (('spec', 'blake2%s_spec.rs' % k), ('custubs', 'blake2%s_cu_stubs.rs' % k), ('hashing', 'm_blake2%s.vinc' % k)):
        m = re.search(r'//@@ begin %s\n(.*?)//@@ end %s\n' % (tag, tag), o, re.S)
        open(os.path.join(R, 'units', 'inc', fname), 'w').write(m.group(1))
        o = o[:m.start()] + '//% include ' + fname + '\n' + o[m.end():]
    open(os.path.join(R, 'units', 'blake2%s.vtpl' % k), 'w').write(o)
print('generated')
