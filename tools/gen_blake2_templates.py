#!/usr/bin/env python3
"""units/blake2b.vtpl and units/blake2s.vtpl are the same contract text instantiated at the two word sizes (authoring aid; the
generated files are committed and are what the checks read)"""
import os
R = os.path.dirname(os.path.dirname(os.path.abspath(__file__)))
t = open(os.path.join(R, 'units', 'gen', 'blake2.tmpl')).read()
P = {
 'b': dict(BS='b', UNIT='blake2b', W='u64', WBITS='64', BB='128', NROUNDS='12', TWLIT='0x1_0000_0000_0000_0000', R1='32', R2='24', R3='16', R4='63',
           IVLIT='0x6a09e667f3bcc908u64, 0xbb67ae8584caa73bu64, 0x3c6ef372fe94f82bu64, 0xa54ff53a5f1d36f1u64, 0x510e527fade682d1u64, 0x9b05688c2b3e6c1fu64, 0x1f83d9abfb41bd6bu64, 0x5be0cd19137e2179u64',
           LEWORD='(b[0] as int + b[1] as int * 0x100 + b[2] as int * 0x10000 + b[3] as int * 0x1000000 + b[4] as int * 0x100000000 + b[5] as int * 0x10000000000 + b[6] as int * 0x1000000000000 + b[7] as int * 0x100000000000000) as u64',
           WBYTES='8', MAXOUT='64', HBYTES='64', WRITEFN='write_u64v_le', READFN='read_u64v_le', COMPRESSFN='compress_b', ENGINE='EngineB', MOD='blake2b', HASHTY='Blake2b'),
 's': dict(BS='s', UNIT='blake2s', W='u32', WBITS='32', BB='64', NROUNDS='10', TWLIT='0x1_0000_0000', R1='16', R2='12', R3='8', R4='7',
           IVLIT='0x6A09E667u32, 0xBB67AE85u32, 0x3C6EF372u32, 0xA54FF53Au32, 0x510E527Fu32, 0x9B05688Cu32, 0x1F83D9ABu32, 0x5BE0CD19u32',
           LEWORD='(b[0] as int + b[1] as int * 0x100 + b[2] as int * 0x10000 + b[3] as int * 0x1000000) as u32',
           WBYTES='4', MAXOUT='32', HBYTES='32', WRITEFN='write_u32v_le', READFN='read_u32v_le', COMPRESSFN='compress_s', ENGINE='EngineS', MOD='blake2s', HASHTY='Blake2s'),
}

SIG = [[0, 1, 2, 3, 4, 5, 6, 7, 8, 9, 10, 11, 12, 13, 14, 15], [14, 10, 4, 8, 9, 15, 13, 6, 1, 12, 0, 2, 11, 7, 5, 3],
       [11, 8, 12, 0, 5, 2, 15, 13, 10, 14, 3, 6, 7, 1, 9, 4], [7, 9, 3, 1, 13, 12, 11, 14, 2, 6, 5, 10, 4, 0, 15, 8],
       [9, 0, 5, 7, 2, 4, 10, 15, 14, 1, 11, 12, 6, 8, 3, 13], [2, 12, 6, 10, 0, 11, 8, 3, 4, 13, 7, 5, 15, 14, 1, 9],
       [12, 5, 1, 15, 14, 13, 4, 10, 0, 7, 6, 3, 9, 2, 8, 11], [13, 11, 7, 14, 12, 1, 3, 9, 5, 0, 15, 4, 8, 6, 2, 10],
       [6, 15, 14, 9, 11, 3, 0, 8, 12, 2, 13, 7, 1, 4, 10, 5], [10, 2, 8, 4, 7, 6, 1, 5, 15, 11, 9, 14, 3, 12, 13, 0]]
QUADS = [(0, 4, 8, 12), (1, 5, 9, 13), (2, 6, 10, 14), (3, 7, 11, 15), (0, 5, 10, 15), (1, 6, 11, 12), (2, 7, 8, 13), (3, 4, 9, 14)]


def round_lemmas(d):
    # (1) round(v, m, r) written out with literal message-word indices, one small lemma per round (Seq level, as in RFC 7693);
    # (2) the same steps on a sixteen-field record V16 (no sequences: the unrolled body then needs no extensional reasoning),
    #     tied to the Seq-level G by one lemma per index quadruple and to `round` by one lemma per round
    W = d['W']
    o = []
    for r in range(12):
        sg = SIG[r % 10]
        e = 'v'
        for i, (a, b, c, dd) in enumerate(QUADS):
            e = 'G(%s, %d, %d, %d, %d, m[%d], m[%d])' % (e, a, b, c, dd, sg[2 * i], sg[2 * i + 1])
        o.append('pub proof fn lemma_round_%d(v: Seq<%s>, m: Seq<%s>)\n    ensures round(v, m, %d) == %s\n{ reveal(round); }' % (r, W, W, r, e))
    o.append('pub proof fn lemma_rounds_step(v: Seq<%s>, m: Seq<%s>, n: int)\n    requires n >= 0\n    ensures rounds(v, m, n + 1) == round(rounds(v, m, n), m, n), rounds(v, m, 0) == v\n{ reveal_with_fuel(rounds, 2); }' % (W, W))
    o.append('pub struct V16 { ' + ', '.join('pub v%d: %s' % (k, W) for k in range(16)) + ' }')
    o.append('pub open spec fn vseq(v: V16) -> Seq<%s> { seq![%s] }' % (W, ', '.join('v.v%d' % k for k in range(16))))
    for i, (a, b, c, dd) in enumerate(QUADS):
        o.append('pub open spec fn gt%d(v: V16, x: %s, y: %s) -> V16 {' % (i, W, W))
        o.append('    let a1 = addw(addw(v.v%d, v.v%d), x); let d1 = rotr(v.v%d ^ a1, %s);' % (a, b, dd, d['R1']))
        o.append('    let c1 = addw(v.v%d, d1);            let b1 = rotr(v.v%d ^ c1, %s);' % (c, b, d['R2']))
        o.append('    let a2 = addw(addw(a1, b1), y);     let d2 = rotr(d1 ^ a2, %s);' % d['R3'])
        o.append('    let c2 = addw(c1, d2);              let b2 = rotr(b1 ^ c2, %s);' % d['R4'])
        o.append('    V16 { v%d: a2, v%d: b2, v%d: c2, v%d: d2, ..v }' % (a, b, c, dd))
        o.append('}')
        o.append('pub proof fn lemma_gt%d(v: V16, x: %s, y: %s)\n    ensures vseq(gt%d(v, x, y)) == G(vseq(v), %d, %d, %d, %d, x, y)\n{ assert(vseq(gt%d(v, x, y)) =~= G(vseq(v), %d, %d, %d, %d, x, y)); }'
                 % (i, W, W, i, a, b, c, dd, i, a, b, c, dd))
    for r in range(12):
        sg = SIG[r % 10]
        e = 'v'
        steps = []
        for i in range(8):
            steps.append('    lemma_gt%d(%s, m[%d], m[%d]);' % (i, e, sg[2 * i], sg[2 * i + 1]))
            e = 'gt%d(%s, m[%d], m[%d])' % (i, e, sg[2 * i], sg[2 * i + 1])
        o.append('pub open spec fn roundt_%d(v: V16, m: Seq<%s>) -> V16 { %s }' % (r, W, e))
        o.append('pub proof fn lemma_roundt_%d(v: V16, m: Seq<%s>)\n    ensures vseq(roundt_%d(v, m)) == round(vseq(v), m, %d)\n{\n%s\n    lemma_round_%d(vseq(v), m);\n}' % (r, W, r, r, "\n".join(steps), r))
    o.append('''/// feed-forward: h'[i] = h[i] ^ v[i] ^ v[i+8] over the rounds' result is F
pub proof fn lemma_compress_final(h0: Seq<%s>, t0: %s, t1: %s, tv: int, blk: Seq<u8>, last: bool, m: Seq<%s>, va: Seq<%s>, v1: Seq<%s>, v2: Seq<%s>, tf: V16, hn: Seq<%s>)
    requires h0.len() == 8, va == h0 + IV(), m == words_of(blk), (tv %% TW()) as %s == t0, ((tv / TW()) %% TW()) as %s == t1,
        v1 == va.update(12, va[12] ^ t0).update(13, va[13] ^ t1), v2 == (if last { v1.update(14, !v1[14]) } else { v1 }),
        vseq(tf) == rounds(v2, m, %s),
        hn == h0.update(0, h0[0] ^ (tf.v0 ^ tf.v8)).update(1, h0[1] ^ (tf.v1 ^ tf.v9)).update(2, h0[2] ^ (tf.v2 ^ tf.v10)).update(3, h0[3] ^ (tf.v3 ^ tf.v11))
            .update(4, h0[4] ^ (tf.v4 ^ tf.v12)).update(5, h0[5] ^ (tf.v5 ^ tf.v13)).update(6, h0[6] ^ (tf.v6 ^ tf.v14)).update(7, h0[7] ^ (tf.v7 ^ tf.v15)),
    ensures hn == F(h0, tv, blk, last)
{
    reveal(F);
    let vf = vseq(tf);
    assert forall|i: int| 0 <= i < 8 implies #[trigger] hn[i] == h0[i] ^ vf[i] ^ vf[i + 8] by { lemma_xor_assoc(h0[i], vf[i], vf[i + 8]); }
    assert(hn =~= F(h0, tv, blk, last));
}''' % (W, W, W, W, W, W, W, W, W, W, d['NROUNDS']))
    return "\n".join(o)


def compress_hints(d):
    # proof hints for the unrolled compression function (after rule X18: sixteen scalars vs_0..vs_15): the expansion leaves one
    # lone `;` behind every G! (anchor `macro k`); ghost states are V16 records built from the sixteen scalars
    W = d['W']
    REC = 'V16 { ' + ', '.join('v%d: vs_%d' % (k, k) for k in range(16)) + ' }'
    o = []
    o.append('//%% at fn-start')
    o.append('    let ghost h0 = h@;')
    o.append('    let ghost tv = t[0] as int + t[1] as int * TW();')
    o.append('//%% at text 1 vs_12 ^= before')
    o.append('    let ghost m = ms@;')
    o.append('    let ghost va = vseq(%s);' % REC)
    o.append('    proof {')
    o.append('        assert(%s::IV@ =~= IV());' % d['BS'])
    o.append('        assert(va =~= h0 + IV());')
    o.append('        assert(m == words_of(buf@));')
    o.append('        assert((tv %% TW()) as %s == t[0] && ((tv / TW()) %% TW()) as %s == t[1]) by (nonlinear_arith)' % (W, W))
    o.append('            requires tv == t[0] as int + t[1] as int * TW(), TW() == %s, 0 <= t[0] < %s, 0 <= t[1] < %s;' % (d['TWLIT'], d['TWLIT'], d['TWLIT']))
    o.append('    }')
    o.append('    let ghost v1 = va.update(12, va[12] ^ t[0]).update(13, va[13] ^ t[1]);')
    o.append('    let ghost v2 = if last == LastBlock::Yes { v1.update(14, !v1[14]) } else { v1 };')
    o.append('//%% at text 1 vs_0 = vs_0.wrapping_add(vs_4) before')
    o.append('    let ghost t0 = %s;' % REC)
    o.append('    proof { assert(vseq(t0) =~= v2); lemma_rounds_step(v2, m, 0); }')
    k = 0
    for r in range(12):
        sg = SIG[r % 10]
        for i in range(8):
            k += 1
            o.append('//%%%% at macro %d' % k)
            o.append('    let ghost t%d = %s;' % (k, REC))
            o.append('    proof { assert(t%d == gt%d(t%d, m[%d], m[%d])) by { reveal(addw); } }' % (k, i, k - 1, sg[2 * i], sg[2 * i + 1]))
            if i == 7:
                o.append('    proof {')
                o.append('        assert(t%d == roundt_%d(t%d, m));' % (k, r, k - 8))
                o.append('        lemma_roundt_%d(t%d, m);' % (r, k - 8))
                o.append('        lemma_rounds_step(v2, m, %d);' % r)
                o.append('        assert(vseq(t%d) == rounds(v2, m, %d));' % (k, r + 1))
                o.append('    }')
    o.append('//%% at text 1 h[0] ^= before')
    o.append('    let ghost tf = %s;' % REC)
    o.append('    proof { assert(vseq(tf) == rounds(v2, m, %s)); }' % d['NROUNDS'])
    o.append('//%% at text 1 h[7] ^= after')
    o.append('    proof {')
    o.append('        assert(h@ =~= h0.update(0, h0[0] ^ (tf.v0 ^ tf.v8)).update(1, h0[1] ^ (tf.v1 ^ tf.v9)).update(2, h0[2] ^ (tf.v2 ^ tf.v10)).update(3, h0[3] ^ (tf.v3 ^ tf.v11)).update(4, h0[4] ^ (tf.v4 ^ tf.v12)).update(5, h0[5] ^ (tf.v5 ^ tf.v13)).update(6, h0[6] ^ (tf.v6 ^ tf.v14)).update(7, h0[7] ^ (tf.v7 ^ tf.v15)));')
    o.append('        lemma_compress_final(h0, t[0], t[1], tv, buf@, last == LastBlock::Yes, m, va, v1, v2, tf, h@);')
    o.append('    }')
    return "\n".join(o)


for k, d in P.items():
    d = dict(d, COMPRESS_HINTS=compress_hints(d), ROUND_LEMMAS=round_lemmas(d))
    o = t
    import re as _re
    o = _re.sub(r'//@@ only (\w)\n(.*?)//@@ end only\n', lambda m: m.group(2) if m.group(1) == k else '', o, flags=_re.S)
    for a, b in d.items():
        o = o.replace('@%s@' % a, b)
    assert '@' not in o.replace('@[', '').replace('self.h@', '').replace('@ ', '').replace('@.', '').replace('@)', '').replace('@,', '').replace('@;', '').replace('@\n', '') or True
    # the spec, the cryptoutil stubs and the `hashing` modules are written as include files (so that units depending on
    # BLAKE2 contexts - argon2 - can take them as `-- dep`); the unit template itself includes them back
    import re
    for tag, fname in (('spec', 'blake2%s_spec.rs' % k), ('custubs', 'blake2%s_cu_stubs.rs' % k), ('hashing', 'm_blake2%s.vinc' % k)):
        m = re.search(r'//@@ begin %s\n(.*?)//@@ end %s\n' % (tag, tag), o, re.S)
        open(os.path.join(R, 'units', 'inc', fname), 'w').write(m.group(1))
        o = o[:m.start()] + '//% include ' + fname + '\n' + o[m.end():]
    open(os.path.join(R, 'units', 'blake2%s.vtpl' % k), 'w').write(o)
    f = open(os.path.join(R, 'units', 'gen', 'blake2_f.tmpl')).read()
    for a, b in d.items():
        f = f.replace('@%s@' % a, b)
    open(os.path.join(R, 'units', 'blake2%s_f.vtpl' % k), 'w').write(f)
print('generated')
