#!/bin/sh
# ftimes.sh <unit.rs> : per-function SMT time / rlimit of a generated unit (authoring aid)
cd "$(dirname "$1")" && RUST_MIN_STACK=4294967296 verus "$(basename "$1")" --rlimit ${RL:-60} --output-json --time ${SEED:+--smt-option smt.random_seed=$SEED} 2>/dev/null | python3 -c "
import json,sys
j=json.load(sys.stdin)
for mt in j['times-ms']['smt']['smt-run-module-times']:
    for fb in mt.get('function-breakdown',[]):
        print(round(fb['time-micros']/1e6,2), fb['rlimit'], fb['success'], fb['function'])
print('verified', j['verification-results'])
" | sort -n | tail -${N:-12}
