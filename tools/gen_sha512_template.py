#!/usr/bin/env python3
"""units/sha512.vtpl: the proof hints of the unrolled SHA-512 block function (20 x rounds4!, 32 x schedule!) are generated
(authoring aid; the generated file is committed and is what the checks read)"""
import os
R = os.path.dirname(os.path.dirname(os.path.abspath(__file__)))
K = """0x428a2f98d728ae22, 0x7137449123ef65cd, 0xb5c0fbcfec4d3b2f, 0xe9b5dba58189dbbc,
    0x3956c25bf348b538, 0x59f111f1b605d019, 0x923f82a4af194f9b, 0xab1c5ed5da6d8118,
    0xd807aa98a3030242, 0x12835b0145706fbe, 0x243185be4ee4b28c, 0x550c7dc3d5ffb4e2,
    0x72be5d74f27b896f, 0x80deb1fe3b1696b1, 0x9bdc06a725c71235, 0xc19bf174cf692694,
    0xe49b69c19ef14ad2, 0xefbe4786384f25e3, 0x0fc19dc68b8cd5b5, 0x240ca1cc77ac9c65,
    0x2de92c6f592b0275, 0x4a7484aa6ea6e483, 0x5cb0a9dcbd41fbd4, 0x76f988da831153b5,
    0x983e5152ee66dfab, 0xa831c66d2db43210, 0xb00327c898fb213f, 0xbf597fc7beef0ee4,
    0xc6e00bf33da88fc2, 0xd5a79147930aa725, 0x06ca6351e003826f, 0x142929670a0e6e70,
    0x27b70a8546d22ffc, 0x2e1b21385c26c926, 0x4d2c6dfc5ac42aed, 0x53380d139d95b3df,
    0x650a73548baf63de, 0x766a0abb3c77b2a8, 0x81c2c92e47edaee6, 0x92722c851482353b,
    0xa2bfe8a14cf10364, 0xa81a664bbc423001, 0xc24b8b70d0f89791, 0xc76c51a30654be30,
    0xd192e819d6ef5218, 0xd69906245565a910, 0xf40e35855771202a, 0x106aa07032bbd1b8,
    0x19a4c116b8d2d0c8, 0x1e376c085141ab53, 0x2748774cdf8eeb99, 0x34b0bcb5e19b48a8,
    0x391c0cb3c5c95a63, 0x4ed8aa4ae3418acb, 0x5b9cca4f7763e373, 0x682e6ff3d6b2b8a3,
    0x748f82ee5defb2fc, 0x78a5636f43172f60, 0x84c87814a1f0ab72, 0x8cc702081a6439ec,
    0x90befffa23631e28, 0xa4506cebde82bde9, 0xbef9a3f7b2c67915, 0xc67178f2e372532b,
    0xca273eceea26619c, 0xd186b8c721c0c207, 0xeada7dd6cde0eb1e, 0xf57d4f7fee6ed178,
    0x06f067aa72176fba, 0x0a637dc5a2c898a6, 0x113f9804bef90dae, 0x1b710b35131c471b,
    0x28db77f523047d84, 0x32caab7b40c72493, 0x3c9ebe0a15c9bebc, 0x431d67c49c100d4c,
    0x4cc5d4becb3e42b6, 0x597f299cfc657e2a, 0x5fcb6fab3ad6faec, 0x6c44198c4a475817""".replace('\n', ' ').split(',')
K = [k.strip() for k in K]
assert len(K) == 80


def kconst():
    # kconst(t) as an if-chain (indexing an 80-element seq! literal is a deep push chain for the solver)
    o = ['pub open spec fn kconst(t: int) -> u64 {']
    for t, k in enumerate(K):
        o.append('    %sif t == %d { %su64 }' % ('' if t == 0 else 'else ', t, k) if t < 79 else '    else { %su64 }' % k)
    o.append('}')
    return "\n".join(o)


def hints():
    o = []
    o.append('//%% at let ae before')
    o.append('    let ghost h0 = state@;')
    o.append('    let ghost m = block@;')
    # initial loads: pair p (p = 0..7) lives in register w<p>; the 4 `let (mut wB, mut wA)` statements
    # rounds4 number j (0..39) uses pairs 2j, 2j+1; pair n >= 8 is produced by the (n-8)-th schedule_x2 call into register w<n % 10>
    o.append('//%% at let dh after')
    o.append('    proof { assert(st(ae, bf, cg, dh) =~= h0); lemma_rounds0(h0, m); lemma_sched_base(m); }')
    for n in range(8, 40):
        reg = 'w%d' % (n % 10)
        o.append('//%%%% at call %d schedule_x2 after' % (n - 7))
        o.append('    proof {')
        o.append('        lemma_sched(m, %d); lemma_sched(m, %d);' % (2 * n, 2 * n + 1))
        o.append('        assert(%s.1 == sched_w(m, %d) && %s.0 == sched_w(m, %d));' % (reg, 2 * n, reg, 2 * n + 1))
        o.append('    }')
    for j in range(20):
        o.append('//%%%% at call %d digest_round after' % (4 * j + 4))
        o.append('    proof {')
        o.append('        lemma_rounds4(h0, m, %d);' % (4 * j))
        o.append('        assert(st(ae, bf, cg, dh) =~= rounds(h0, m, %d));' % (4 * j + 4))
        o.append('    }')
    o.append('//%% at fn-end')
    o.append('    proof {')
    o.append('        let r = rounds(h0, m, 80);')
    o.append('        lemma_add_def(h0[0], r[0]); lemma_add_def(h0[1], r[1]); lemma_add_def(h0[2], r[2]); lemma_add_def(h0[3], r[3]);')
    o.append('        lemma_add_def(h0[4], r[4]); lemma_add_def(h0[5], r[5]); lemma_add_def(h0[6], r[6]); lemma_add_def(h0[7], r[7]);')
    o.append('        assert(state@ =~= sha512_compress(h0, m));')
    o.append('    }')
    return "\n".join(o)


t = open(os.path.join(R, 'units', 'gen', 'sha512.tmpl')).read()
t = t.replace('@KCONST@', kconst()).replace('@HINTS@', hints())
open(os.path.join(R, 'units', 'sha512.vtpl'), 'w').write(t)
print('generated')
