#!/usr/bin/env python3
"""units/ripemd160.vtpl: the spec tables (from the RIPEMD-160 paper, Dobbertin / Bosselaers / Preneel 1996, appendix A) and the
per-step proof hints of the unrolled compression function (160 `round!` expansions) are generated (authoring aid; the generated
file is committed and is what the checks read).  Nothing here is read from /repo: the tables below are the standard's."""
import os
R = os.path.dirname(os.path.dirname(os.path.abspath(__file__)))

RL = [0, 1, 2, 3, 4, 5, 6, 7, 8, 9, 10, 11, 12, 13, 14, 15,
      7, 4, 13, 1, 10, 6, 15, 3, 12, 0, 9, 5, 2, 14, 11, 8,
      3, 10, 14, 4, 9, 15, 8, 1, 2, 7, 0, 6, 13, 11, 5, 12,
      1, 9, 11, 10, 0, 8, 12, 4, 13, 3, 7, 15, 14, 5, 6, 2,
      4, 0, 5, 9, 7, 12, 2, 10, 14, 1, 3, 8, 11, 6, 15, 13]
RR = [5, 14, 7, 0, 9, 2, 11, 4, 13, 6, 15, 8, 1, 10, 3, 12,
      6, 11, 3, 7, 0, 13, 5, 10, 14, 15, 8, 12, 4, 9, 1, 2,
      15, 5, 1, 3, 7, 14, 6, 9, 11, 8, 12, 2, 10, 0, 4, 13,
      8, 6, 4, 1, 3, 11, 15, 0, 5, 12, 2, 13, 9, 7, 10, 14,
      12, 15, 10, 4, 1, 5, 8, 7, 6, 2, 13, 14, 0, 3, 9, 11]
SL = [11, 14, 15, 12, 5, 8, 7, 9, 11, 13, 14, 15, 6, 7, 9, 8,
      7, 6, 8, 13, 11, 9, 7, 15, 7, 12, 15, 9, 11, 7, 13, 12,
      11, 13, 6, 7, 14, 9, 13, 15, 14, 8, 13, 6, 5, 12, 7, 5,
      11, 12, 14, 15, 14, 15, 9, 8, 9, 14, 5, 6, 8, 6, 5, 12,
      9, 15, 5, 11, 6, 8, 13, 12, 5, 12, 13, 14, 11, 8, 5, 6]
SR = [8, 9, 9, 11, 13, 15, 15, 5, 7, 7, 8, 11, 14, 14, 12, 6,
      9, 13, 15, 7, 12, 8, 9, 11, 7, 7, 12, 7, 6, 15, 13, 11,
      9, 7, 15, 11, 8, 6, 6, 14, 12, 13, 5, 14, 13, 13, 7, 5,
      15, 5, 8, 11, 14, 14, 6, 14, 6, 9, 12, 9, 12, 5, 15, 8,
      8, 5, 12, 9, 12, 5, 14, 6, 8, 13, 6, 5, 15, 13, 11, 11]


def tab(name, t):
    rows = ["        " + ", ".join("%d" % x for x in t[16 * i:16 * i + 16]) for i in range(5)]
    return "pub open spec fn %s() -> Seq<int> {\n    seq![\n%s\n    ]\n}" % (name, ",\n".join(rows))


def tables():
    return "\n".join([tab('RL', RL), tab('RR', RR), tab('SL', SL), tab('SR', SR)])


def table_lemmas():
    """RL()[j] etc. as facts, one proof fn per table (compute_only evaluates the literal)"""
    o = []
    for name, t in (('RL', RL), ('RR', RR), ('SL', SL), ('SR', SR)):
        for half in range(5):
            o.append('pub proof fn lemma_%s_%d() ensures' % (name.lower(), half))
            o.append('    ' + ', '.join('%s()[%d] == %d' % (name, j, t[j]) for j in range(16 * half, 16 * half + 16)))
            o.append('{')
            for j in range(16 * half, 16 * half + 16):
                o.append('    assert(%s()[%d] == %d) by (compute_only);' % (name, j, t[j]))
            o.append('}')
    return "\n".join(o)


def hints():
    o = []
    o.append('//%% at call 1 read_u32v_le after')
    o.append('    let ghost hh = h@;')
    o.append('    let ghost m = words_of(data@);')
    o.append('    proof { assert(w@.subrange(0, 16) =~= w@); lemma_line0(hh, m); }')
    o.append('//%% at text 1 bbb_4 = h[4] after')
    o.append('    proof { assert(S5 { a: bb_0, b: bb_1, c: bb_2, d: bb_3, e: bb_4 } == lline(hh, m, 0)); assert(S5 { a: bbb_0, b: bbb_1, c: bbb_2, d: bbb_3, e: bbb_4 } == rline(hh, m, 0)); }')
    for k in range(1, 161):
        left = k <= 80
        j = (k - 1) % 80
        arr = 'bb' if left else 'bbb'
        line = 'lline' if left else 'rline'
        tl = ('rl', 'sl') if left else ('rr', 'sr')
        p = [(i - (j + 1)) % 5 for i in range(5)]       # register holding A, B, C, D, E after step j
        o.append('//%%%% at text %d rotate_left(10) after' % k)
        o.append('    proof {')
        if j % 16 == 0:
            o.append('        lemma_%s_%d(); lemma_%s_%d();' % (tl[0], j // 16, tl[1], j // 16))
        o.append('        lemma_%s_step(hh, m, %d);' % (line, j))
        o.append('        assert(S5 { %s } == %s(hh, m, %d)) by { reveal(step1); reveal(add32); }'
                 % (', '.join('%s: %s_%d' % (f, arr, x) for f, x in zip('abcde', p)), line, j + 1))
        o.append('    }')
    o.append('//%% at text 1 h[0] = bbb_3 after')
    o.append('    proof {')
    o.append('        let l = lline(hh, m, 80); let r = rline(hh, m, 80);')
    o.append('        lemma_add3(hh[1], l.c, r.d);')
    o.append('        let (v0, v1, v2, v3, v4) = (h[0], h[1], h[2], h[3], h[4]);')
    o.append('        assert(v1 == hh[2].wrapping_add(l.d).wrapping_add(r.e));')
    o.append('        assert(v2 == hh[3].wrapping_add(l.e).wrapping_add(r.a));')
    o.append('        assert(v3 == hh[4].wrapping_add(l.a).wrapping_add(r.b));')
    o.append('        assert(v4 == hh[0].wrapping_add(l.b).wrapping_add(r.c));')
    o.append('        lemma_wadd(r.d, hh[1]); lemma_wadd(add32(r.d, hh[1]), l.c);')
    o.append('        assert(v0 == add32(add32(hh[1], l.c), r.d));')
    o.append('        lemma_final(hh, m, seq![v0, v1, v2, v3, v4], v0, v1, v2, v3, v4);')
    o.append('        assert(h@ =~= seq![v0, v1, v2, v3, v4]);')
    o.append('    }')
    return "\n".join(o)


t = open(os.path.join(R, 'units', 'gen', 'ripemd160.tmpl')).read()
t = t.replace('@TABLES@', tables()).replace('@TABLE_LEMMAS@', table_lemmas()).replace('@HINTS@', hints())
open(os.path.join(R, 'units', 'ripemd160.vtpl'), 'w').write(t)
print('generated')
