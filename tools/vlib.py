#!/usr/bin/env python3
"""Driver library: scratch copy of /repo, rustc expansion, Verus units, Kani harness batches, replay, evidence.
See DESIGN.md section 1.  Exit codes of a check: 0 all baseline obligations discharged, 1 violation, 2 undecided."""
import os, re, sys, json, time, shutil, subprocess, tempfile, hashlib, glob, concurrent.futures as cf

ROOT = os.path.dirname(os.path.dirname(os.path.abspath(__file__)))
REPO = os.environ.get('VERIF_REPO', '/repo')
sys.path.insert(0, os.path.join(ROOT, 'tools'))
import extract  # noqa

try:
    import tomllib
except ImportError:  # pragma: no cover
    tomllib = None

PROFILES = {
    'default': [],
    'nosse2': ['-C', 'target-feature=-sse2'],
    'force32': None,  # cargo feature
}
ENV = dict(os.environ, CARGO_NET_OFFLINE='true', CARGO_TERM_COLOR='never')

SEMANTIC = ('postcondition not satisfied', 'precondition not satisfied', 'assertion failed', 'invariant not satisfied',
            'loop invariant not satisfied', 'possible arithmetic underflow/overflow', 'possible division by zero',
            'possible bit shift underflow/overflow', 'decreases not satisfied', 'unreachable', 'panic',
            'possible overflow', 'possible underflow', 'not satisfied', 'cannot show')


def log(*a):
    print(*a, file=sys.stderr, flush=True)


def sh(cmd, cwd=None, timeout=None, env=None):
    t0 = time.time()
    try:
        p = subprocess.run(cmd, cwd=cwd, env=env or ENV, capture_output=True, text=True, timeout=timeout)
        return p.returncode, p.stdout, p.stderr, time.time() - t0
    except subprocess.TimeoutExpired as e:
        so = e.stdout.decode() if isinstance(e.stdout, bytes) else (e.stdout or '')
        se = e.stderr.decode() if isinstance(e.stderr, bytes) else (e.stderr or '')
        return 124, so, se, time.time() - t0


class Run:
    """one check run: a scratch directory outside /repo and /verif holding a copy of the working tree"""

    def __init__(self, keep=False):
        base = os.environ.get('VERIF_SCRATCH_BASE', tempfile.gettempdir())
        os.makedirs(base, exist_ok=True)
        self.dir = tempfile.mkdtemp(prefix='cxverif-', dir=base)
        self.keep = keep
        self.tree = os.path.join(self.dir, 'tree')
        sh(['rsync', '-a', '--exclude', 'target', '--exclude', '.git', REPO + '/', self.tree + '/'])
        self.expansions = {}
        self.kani_tree = None
        self.kani_tree32 = None

    def close(self):
        if not self.keep:
            shutil.rmtree(self.dir, ignore_errors=True)

    # -------------------------------------------------------------- rustc expansion
    def expansion(self, profile):
        if profile in self.expansions:
            return self.expansions[profile]
        out = os.path.join(self.dir, 'expanded_%s.rs' % profile)
        tdir = os.path.join(self.dir, 'target_expand_' + profile)
        cmd = ['cargo', '+nightly', 'rustc', '--offline', '--lib', '--target-dir', tdir]
        if profile == 'force32':
            cmd += ['--features', 'force-32bits']
        cmd += ['--', '-Zunpretty=expanded'] + (PROFILES[profile] or [])
        rc, so, se, dt = sh(cmd, cwd=self.tree, timeout=300)
        if rc != 0 or len(so) < 1000:
            raise ToolLimit("rustc expansion (%s) failed: %s" % (profile, se[-2000:]))
        open(out, 'w').write(so)
        shutil.rmtree(tdir, ignore_errors=True)
        e = extract.Expansion(so)
        e.seconds = dt
        self.expansions[profile] = e
        return e


class ToolLimit(Exception):
    pass


# ------------------------------------------------------------------------------------------------ Verus
def template_info(unit):
    p = os.path.join(ROOT, 'units', unit + '.vtpl')
    txt = open(p).read()
    prof = re.search(r'^//% profile (\S+)', txt, re.M)
    props = set()
    for m in re.finditer(r'^//% props (.*)$', txt, re.M):
        props.update(m.group(1).split())
    for m in re.finditer(r'props=([A-Z0-9,]+)', txt):
        props.update(m.group(1).split(','))
    tier = re.search(r'^//% tier (\S+)', txt, re.M)
    rl = re.search(r'^//% rlimit (\S+)', txt, re.M)
    return {'unit': unit, 'path': p, 'profile': prof.group(1) if prof else 'default', 'props': props,
            'tier': tier.group(1) if tier else 'quick', 'text': txt, 'rlimit': float(rl.group(1)) if rl else 60.0}


def all_units():
    return sorted(os.path.basename(p)[:-5] for p in glob.glob(os.path.join(ROOT, 'units', '*.vtpl')))


def fn_ranges_of_lemmas(text):
    """line ranges of hand-written proof fns in the unit (to attribute failures)"""
    res = []
    m = extract.mask(text)
    for mm in re.finditer(r'(?:pub )?(?:broadcast )?proof fn ([A-Za-z0-9_]+)', m):
        bo = None
        bal = 0
        k = mm.end()
        while k < len(m):
            c = m[k]
            if c in '([':
                bal += 1
            elif c in ')]':
                bal -= 1
            elif c == '{' and bal == 0:
                bo = k
                break
            elif c == ';' and bal == 0:
                break
            k += 1
        if bo is None:
            continue
        try:
            bc = extract.match_close(m, bo)
        except Exception:
            continue
        res.append((mm.group(1), text.count('\n', 0, mm.start()) + 1, text.count('\n', 0, bc) + 1))
    return res


def parse_verus_errors(stderr):
    """-> list of {msg, primary_line, fail_line, text, kind}"""
    blocks = re.split(r'\n(?=error|warning|note: (?:while|automatically))', '\n' + stderr)
    out = []
    for b in blocks:
        b = b.strip('\n')
        mm = re.match(r'error(\[E\d+\])?: (.*)', b)
        if not mm:
            continue
        msg = mm.group(2).strip()
        if msg.startswith('aborting due to'):
            continue
        loc = re.search(r'-->\s*([^\s:]+):(\d+):(\d+)', b)
        primary = int(loc.group(2)) if loc else None
        fail_line = primary
        # gutter lines with labels
        cur = None
        for ln in b.split('\n'):
            g = re.match(r'\s*(\d+)\s*\|', ln)
            if g:
                cur = int(g.group(1))
            if ('at the end of the function body' in ln or 'at this exit' in ln) and cur is not None:
                fail_line = cur
        kind = 'semantic'
        low = msg.lower()
        if mm.group(1) or 'internal error' in low or 'not supported' in low or 'unsupported' in low or 'panicked' in low:
            kind = 'tool'
        elif 'rlimit' in low or 'resource limit' in low or 'timed out' in low:
            kind = 'rlimit'
        elif not any(s in low for s in SEMANTIC):
            kind = 'tool'
        out.append({'msg': msg, 'primary_line': primary, 'fail_line': fail_line, 'text': b[:3000], 'kind': kind})
    if 'panicked at' in stderr and not out:
        out.append({'msg': 'verus panicked', 'primary_line': None, 'fail_line': None, 'text': stderr[-3000:], 'kind': 'tool'})
    return out


def run_verus_file(path, rlimit, seed, timeout, multi=4):
    cmd = ['verus', path, '--rlimit', str(rlimit), '--output-json', '--time', '--multiple-errors', str(multi),
           '--smt-option', 'smt.random_seed=%d' % seed]
    # the fully unrolled BLAKE2 compression functions (768 statements) overflow rustc's default stack inside Verus
    rc, so, se, dt = sh(cmd, cwd=os.path.dirname(path), timeout=timeout, env=dict(ENV, RUST_MIN_STACK='4294967296'))
    js = None
    try:
        js = json.loads(so)
    except Exception:
        pass
    return rc, js, se, dt, " ".join(cmd[:1] + [os.path.basename(path)] + cmd[2:])


def verus_unit(run, unit, seed=0, twin=True, rlimit=None, timeout=600):
    """returns dict: obligations [{name, fn, status, detail, props}], tool_errors, times, rules ..."""
    info = template_info(unit)
    rlimit = rlimit or info['rlimit']
    res = {'unit': unit, 'obligations': [], 'tool_errors': [], 'rules': [], 'seconds': 0.0, 'verified': 0,
           'twin': None, 'profile': info['profile'], 'assumptions': [], 'checker_cmd': None}
    try:
        exp = run.expansion(info['profile'])
        text, meta = extract.build_unit(info['text'], {info['profile']: exp}, twin=False)
    except (extract.LostAnchor, ToolLimit, KeyError, ValueError, IndexError) as e:
        res['tool_errors'].append('extraction: %s' % e)
        return res
    res['rules'] = meta['rules']
    path = os.path.join(run.dir, unit + '.rs')
    open(path, 'w').write(text)
    json.dump(meta, open(path + '.map.json', 'w'), indent=1)
    res['assumptions'] = scan_assumptions(text)
    rc, js, se, dt, cmdline = run_verus_file(path, rlimit, seed, timeout)
    res['checker_cmd'] = cmdline
    res['seconds'] += dt
    errs = parse_verus_errors(se)
    if rc == 124:
        res['tool_errors'].append('verus timeout after %ds' % timeout)
    if js is None and rc != 124:
        res['tool_errors'].append('verus produced no json; stderr tail: ' + se[-1500:])
    vr = (js or {}).get('verification-results', {})
    res['verified'] = vr.get('verified', 0)
    if vr.get('encountered-vir-error'):
        res['tool_errors'].append('verus vir error: ' + se[-1500:])
    # smt time per function name (last path segment), best effort
    ftimes = {}
    try:
        for mt in js['times-ms']['smt']['smt-run-module-times']:
            for fb in mt.get('function-breakdown', []):
                ftimes.setdefault(fb['function'].split('::')[-1], []).append((fb['time-micros'] / 1e6, fb['rlimit'], fb['success']))
    except Exception:
        pass
    lemmas = fn_ranges_of_lemmas(text)
    obl = []
    for f in meta['fns']:
        obl.append({'name': 'verus:%s:%s' % (unit, f['path']), 'fn': f['path'], 'lines': f['lines'], 'props': f['props'],
                    'kind': 'fn', 'notwin': f['notwin'], 'src_lines': f['src_lines'], 'degraded': f.get('degraded') or []})
    covered = [tuple(o['lines']) for o in obl]
    for name, a, b in lemmas:
        if any(a >= x and b <= y for x, y in covered):
            continue
        if any(a >= x and b <= (y or 10 ** 9) for x, y in meta.get('dep_ranges', [])):
            continue        # lemma of a dependency include: reported by the unit that owns it
        obl.append({'name': 'verus:%s:lemma:%s' % (unit, name), 'fn': name, 'lines': [a, b], 'props': sorted(info['props']),
                    'kind': 'lemma', 'notwin': True})
    for o in obl:
        o['status'] = 'PROVED'
        o['detail'] = []
    for e in errs:
        if e['kind'] == 'tool':
            res['tool_errors'].append(e['msg'] + ' :: ' + e['text'][:600])
            continue
        ln = e['fail_line']
        hit = [o for o in obl if ln is not None and o['lines'][0] <= ln <= o['lines'][1]]
        if not hit and e['primary_line'] is not None:
            hit = [o for o in obl if o['lines'][0] <= e['primary_line'] <= o['lines'][1]]
        if not hit:
            lns = [l for l in (e['fail_line'], e['primary_line']) if l is not None]
            if any(x <= l <= (y or 10 ** 9) for l in lns for x, y in meta.get('dep_ranges', [])):
                # a lemma of a dependency include: decided and reported by the unit that owns it
                res.setdefault('dep_notes', []).append(e['msg'] + ' :: ' + e['text'][:300])
                continue
            res['tool_errors'].append('unattributed verus error: ' + e['text'][:600])
            continue
        for o in hit:
            if e['kind'] == 'rlimit':
                if o['status'] == 'PROVED':
                    o['status'] = 'UNDECIDED'
            elif o.get('degraded'):
                # the function was restructured and some proof hints lost their anchors: a failed obligation is then a
                # failed proof search, not a counterexample (paired Kani harnesses decide)
                o['status'] = 'UNDECIDED'
                e = dict(e, msg='proof hints lost their anchors (%s); then: %s' % (", ".join(o['degraded'][:3]), e['msg']))
            else:
                o['status'] = 'FAILED'
            o['detail'].append({'msg': e['msg'], 'text': e['text'][:1500]})
    if res['tool_errors']:
        for o in obl:
            if o['status'] == 'PROVED':
                o['status'] = 'UNDECIDED'
    for o in obl:
        t = ftimes.get(o['fn'].split(' / ')[-1])
        if t:
            o['smt_seconds'] = round(sum(x[0] for x in t), 3)
            o['rlimit_used'] = sum(x[1] for x in t)
    res['obligations'] = obl
    res['unit_path'] = path
    res['stderr_tail'] = se[-4000:]
    # ---- vacuity guard: must-fail twin
    if twin and not res['tool_errors']:
        try:
            ttext, tmeta = extract.build_unit(info['text'], {info['profile']: exp}, twin=True)
            tpath = os.path.join(run.dir, unit + '_twin.rs')
            open(tpath, 'w').write(ttext)
            rc2, js2, se2, dt2, _ = run_verus_file(tpath, 2, seed, timeout, multi=1)
            res['seconds'] += dt2
            terrs = parse_verus_errors(se2)
            rejected, accepted = [], []
            for f in tmeta['fns']:
                if f['notwin'] or not f.get('has_body', True):
                    continue
                a, b = f['lines']
                hit = [e for e in terrs if any(l is not None and a <= l <= b for l in (e['fail_line'], e['primary_line']))]
                (rejected if hit else accepted).append(f['path'])
            res['twin'] = {'rejected': len(rejected), 'accepted': accepted, 'seconds': round(dt2, 2)}
            tool2 = [e for e in terrs if e['kind'] == 'tool']
            if rc2 == 124 or js2 is None or tool2:
                res['twin']['error'] = 'twin run failed: ' + (tool2[0]['text'][:300] if tool2 else se2[-500:])
        except Exception as e:  # pragma: no cover
            res['twin'] = {'rejected': 0, 'accepted': [], 'error': str(e)}
    return res


def scan_assumptions(text):
    """mechanical scan for every construct that is an assumption, with the line it is on"""
    out = []
    lines = text.split('\n')
    for i, ln in enumerate(lines):
        s = ln.strip()
        if s.startswith('//'):
            continue
        if 'assume_specification' in s:
            mm = re.search(r'assume_specification\s*(?:<[^>]*>)?\s*\[\s*([^\]]+)\]', s)
            out.append('assume_specification[%s]' % (mm.group(1).strip() if mm else s[:80]))
        elif 'external_body' in s:
            # name of next fn
            nm = None
            for j in range(i, min(i + 6, len(lines))):
                mm = re.search(r'\bfn\s+([A-Za-z0-9_]+)', lines[j])
                if mm:
                    nm = mm.group(1)
                    break
            out.append('external_body fn %s' % nm)
        elif re.search(r'\b(assume|admit)\s*\(', s):
            out.append('assume/admit: ' + s[:100])
        elif 'external_type_specification' in s or 'external_trait_specification' in s:
            out.append(s[:100])
        elif re.search(r'\buninterp\b', s):
            mm = re.search(r'fn\s+([A-Za-z0-9_]+)', s)
            out.append('uninterpreted spec fn %s' % (mm.group(1) if mm else s[:60]))
    return out


# ------------------------------------------------------------------------------------------------ Kani
def kani_modules():
    res = {}
    for p in sorted(glob.glob(os.path.join(ROOT, 'kani', '*.rs'))):
        txt = open(p).read()
        host = re.search(r'^//! host: (\S+)', txt, re.M)
        if not host:
            continue
        name = os.path.basename(p)[:-3]
        feats = re.search(r'^//! features: (.*)$', txt, re.M)
        hs = []
        for mm in re.finditer(r'^// @harness (.*)\n((?:#\[[^\n]*\]\n)*)\s*(?:pub )?fn ([A-Za-z0-9_]+)', txt, re.M):
            kv = dict(w.split('=', 1) for w in mm.group(1).split() if '=' in w)
            hs.append({'name': mm.group(3), 'module': name, 'props': kv.get('props', '').split(','), 'kind': kv.get('kind', 'full'),
                       'bound': kv.get('bound'), 'tier': kv.get('tier', 'quick'), 'expect': kv.get('expect', 'pass'),
                       'build': kv.get('build', 'default'), 'timeout': int(kv.get('timeout', '600')),
                       'pairs': kv.get('pairs', '').split(',') if kv.get('pairs') else []})
        res[name] = {'path': p, 'host': host.group(1), 'harnesses': hs, 'features': feats.group(1).split() if feats else []}
    return res


def prepare_kani_tree(run, modules, features=None):
    key = 'kani_tree32' if features else 'kani_tree'
    if getattr(run, key):
        return getattr(run, key)
    d = os.path.join(run.dir, 'kani32' if features else 'kani')
    sh(['rsync', '-a', '--exclude', 'target', '--exclude', '.git', run.tree + '/', d + '/'])
    os.makedirs(os.path.join(d, 'src', '__verif'), exist_ok=True)
    added = []
    shutil.copytree(os.path.join(ROOT, 'kani', 'refspec'), os.path.join(d, 'src', '__verif', 'refspec'), dirs_exist_ok=True) \
        if os.path.isdir(os.path.join(ROOT, 'kani', 'refspec')) else None
    for name, m in modules.items():
        host = os.path.join(d, m['host'])
        if not os.path.exists(host):
            continue
        txt = open(m['path']).read()
        # harness files live in the scratch tree (concrete playback edits them in place)
        lines = txt.split('\n')
        k = 0
        while k < len(lines) and lines[k].startswith('//!'):
            k += 1
        lines.insert(k, '#[allow(unused_imports)] use alloc::{vec, vec::Vec};')
        open(os.path.join(d, 'src', '__verif', name + '.rs'), 'w').write("\n".join(lines))
        rel = os.path.relpath(os.path.join(d, 'src', '__verif', name + '.rs'), os.path.dirname(host))
        # a file that is a directory-owner module (mod.rs / lib.rs) resolves #[path] relative to its directory;
        # a leaf file foo.rs resolves relative to foo/ -> use absolute path inside the scratch copy
        inj = '\n#[cfg(kani)]\n#[path = "%s"]\nmod __verif_%s;\n' % (os.path.join(d, 'src', '__verif', name + '.rs'), name)
        with open(host, 'a') as f:
            f.write(inj)
        added.append({'file': m['host'], 'added': inj.strip()})
    shutil.copy(os.path.join(REPO, 'Cargo.lock'), os.path.join(d, 'Cargo.lock')) if os.path.exists(os.path.join(REPO, 'Cargo.lock')) else None
    setattr(run, key, d)
    run.kani_added = added
    return d


def parse_kani_output(text):
    """-> {harness_fullname: {status, failed_checks, cover, time, block}}"""
    res = {}
    cur = {}
    blocks = re.split(r'\n(?=(?:Thread \d+: )?Checking harness )', '\n' + text)
    # with -j the result block is printed separately from 'Checking harness'; handle both layouts
    thread_h = {}
    for ln in text.split('\n'):
        mm = re.match(r'(?:Thread (\d+): )?Checking harness (\S+?)\.\.\.', ln)
        if mm:
            thread_h[mm.group(1) or '0'] = mm.group(2)
    # sequential scan
    cur_thread_h = {}
    i = 0
    lines = text.split('\n')
    curh = None
    buf = []

    def flush(h, buf):
        if h is None:
            return
        b = "\n".join(buf)
        st = 'UNKNOWN'
        if 'VERIFICATION:- SUCCESSFUL' in b:
            st = 'SUCCESSFUL'
        elif 'VERIFICATION:- FAILED' in b:
            st = 'FAILED'
        fc = re.findall(r'Failed Checks: (.*)\n\s*File: "([^"]*)", line (\d+)', b)
        cov = re.search(r'\*\* (\d+) of (\d+) cover properties satisfied', b)
        tm = re.search(r'Verification Time: ([0-9.]+)s', b)
        ch = re.search(r'\*\* (\d+) of (\d+) failed', b)
        d = res.setdefault(h, {'status': 'UNKNOWN', 'failed_checks': [], 'cover': None, 'time': None, 'block': '', 'checks': None})
        if st != 'UNKNOWN':
            d['status'] = st
        d['failed_checks'] += [{'desc': a, 'file': f, 'line': int(l)} for a, f, l in fc]
        if cov:
            d['cover'] = [int(cov.group(1)), int(cov.group(2))]
        if tm:
            d['time'] = float(tm.group(1))
        if ch:
            d['checks'] = int(ch.group(2))
        d['block'] += b[-3000:]
    cur_by_thread = {}
    active = None
    for ln in lines:
        mm = re.match(r'(?:Thread (\d+): )?Checking harness (\S+?)\.\.\.', ln)
        if mm:
            flush(active, buf)
            buf = []
            cur_by_thread[mm.group(1) or '0'] = mm.group(2)
            active = mm.group(2)
            continue
        mt = re.match(r'Thread (\d+):\s*$', ln)
        if mt:
            flush(active, buf)
            buf = []
            active = cur_by_thread.get(mt.group(1))
            continue
        if ln.startswith('Manual Harness Summary') or ln.startswith('Complete - '):
            flush(active, buf)
            buf = []
            active = None
            continue
        buf.append(ln)
    flush(active, buf)
    return res


ARTIFACT_CHECKS = ('simd_add', 'simd_sub', 'simd_mul')


def classify_kani(h, r):
    """-> (status, detail) with status in PROVED/BOUNDED/FAILED/UNDECIDED"""
    if r is None:
        return 'UNDECIDED', 'no result block (build failure or timeout)'
    fcs = [f for f in r['failed_checks'] if not (any(a in f['desc'] for a in ARTIFACT_CHECKS) and 'core_arch' in f['file'])]
    if h['expect'] == 'refuse':
        # the call must not return normally: cover after the call unreachable, only failing checks are the library's own
        # assert!/panic!/expect or arithmetic-overflow panics; no memory-safety failure
        bad = [f for f in fcs if re.search(r'dereference|out of bounds|pointer|memcpy|memmove|index out of|unwinding', f['desc'])]
        if r['status'] == 'UNKNOWN':
            return 'UNDECIDED', 'no verdict'
        if bad:
            return 'FAILED', 'memory-safety check failed before refusal: %s' % bad
        if r['cover'] and r['cover'][0] > 0:
            return 'FAILED', 'call returned normally on an invalid argument (cover satisfied)'
        if not fcs:
            return 'FAILED', 'no panic reached and cover unreachable: harness vacuous'
        return 'OK', 'refused: %s' % "; ".join(sorted(set(f['desc'] for f in fcs)))[:300]
    if r['status'] == 'SUCCESSFUL' or (r['status'] == 'FAILED' and not fcs and r['failed_checks']):
        if r['cover'] and r['cover'][0] < r['cover'][1]:
            return 'UNDECIDED', 'vacuity guard: cover not satisfied'
        return 'OK', ''
    if r['status'] == 'FAILED' and any('not currently supported by Kani' in f['desc'] or 'unsupported construct' in f['desc'].lower() for f in fcs):
        return 'UNDECIDED', 'construct not supported by Kani: %s' % [f['desc'][:160] for f in fcs][:2]
    if r['status'] == 'FAILED':
        if any('unwinding assertion' in f['desc'] for f in fcs) and all('unwinding' in f['desc'] or 'undetermined' in f['desc'] for f in fcs):
            return 'UNDECIDED', 'unwinding bound too small: %s' % fcs[:2]
        if not fcs:
            return 'UNDECIDED', 'failed without a named check: ' + r['block'][-400:]
        return 'FAILED', "; ".join("%s (%s:%d)" % (f['desc'], os.path.basename(f['file']), f['line']) for f in fcs)[:1200]
    return 'UNDECIDED', 'no verdict: ' + r['block'][-400:]


def run_kani(run, harnesses, jobs=16, features=None, extra_flags=None):
    """harnesses: list of harness dicts (same build). returns {name: (status, detail, raw)}"""
    mods = kani_modules()
    d = prepare_kani_tree(run, mods, features=features)
    names = [h['name'] for h in harnesses]
    cmd = ['cargo', 'kani']
    if features:
        cmd += ['--features', features]
    cmd += ['-Z', 'stubbing', '-Z', 'function-contracts']
    for n in names:
        cmd += ['--harness', n]
    cmd += ['--exact'] if False else []
    cmd += ['-j', str(jobs), '--output-format', 'terse'] + (extra_flags or [])
    tmo = max(h['timeout'] for h in harnesses) + 120
    rc, so, se, dt = sh(cmd, cwd=d, timeout=tmo)
    out = so + '\n' + se
    open(os.path.join(run.dir, 'kani_%s_%d.log' % ('32' if features else '64', int(time.time() * 1000) % 100000)), 'w').write(out)
    parsed = parse_kani_output(out)
    res = {}
    build_failed = 'error: could not compile' in out or ('error[' in out and not parsed)
    for h in harnesses:
        r = None
        for full, v in parsed.items():
            if full.split('::')[-1] == h['name']:
                r = v
        if build_failed and r is None:
            res[h['name']] = ('UNDECIDED', 'kani build failed: ' + "\n".join(l for l in out.split('\n') if l.startswith('error'))[:800], None)
            continue
        st, detail = classify_kani(h, r)
        res[h['name']] = (st, detail, r)
    return res, " ".join(cmd), dt, out


def kani_playback(run, h, features=None):
    """re-run a failed harness with concrete playback, then run the generated unit tests natively on the real crate.
    returns dict(tests=[text], native_output, reproduced: bool)"""
    mods = kani_modules()
    d = prepare_kani_tree(run, mods, features=features)
    hf = os.path.join(d, 'src', '__verif', h['module'] + '.rs')
    before = open(hf).read()
    cmd = ['cargo', 'kani'] + (['--features', features] if features else []) + \
          ['-Z', 'stubbing', '-Z', 'function-contracts', '--harness', h['name'], '-Z', 'concrete-playback', '--concrete-playback=inplace', '--output-format', 'terse']
    rc, so, se, dt = sh(cmd, cwd=d, timeout=h['timeout'] + 300)
    after = open(hf).read()
    tests = re.findall(r'#\[test\]\nfn (kani_concrete_playback_[A-Za-z0-9_]+)\(\) \{.*?\n\}\n', after, re.S)
    texts = re.findall(r'(/// Test generated for harness.*?\n#\[test\]\nfn kani_concrete_playback_[A-Za-z0-9_]+\(\) \{.*?\n\}\n)', after, re.S)
    out = {'tests': texts, 'test_names': tests, 'native_output': '', 'reproduced': False, 'kani_cmd': " ".join(cmd)}
    if not tests:
        out['native_output'] = 'kani produced no concrete playback test; output tail:\n' + (so + se)[-1500:]
        return out
    cmd2 = ['cargo', 'kani', 'playback'] + (['--features', features] if features else []) + ['-Z', 'concrete-playback', '--', 'kani_concrete_playback']
    rc2, so2, se2, dt2 = sh(cmd2, cwd=d, timeout=900)
    txt = so2 + '\n' + se2
    keep = [l for l in txt.split('\n') if re.search(r'panicked at|assertion|test result|^test |failures:|^    [a-z_:]+kani_concrete', l)]
    out['native_output'] = "\n".join(keep)[-4000:]
    out['reproduced'] = bool(re.search(r'test result: FAILED', txt)) or 'panicked at' in txt
    out['native_cmd'] = " ".join(cmd2)
    open(hf, 'w').write(before)
    return out
