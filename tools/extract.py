#!/usr/bin/env python3
"""Mechanical extraction of /repo's real functions into single-file Verus units.

Input : rustc's own macro-free text of the crate (`-Zunpretty=expanded`) for one expansion
        profile, and a unit template `/verif/units/<unit>.vtpl`.
Output: one Rust file that Verus can check, plus a map (function path -> line range, clauses)
        used to name failed obligations, plus a log of every rewrite rule applied.

The template is ordinary Verus text (module skeleton, spec functions, lemmas, contract-only stubs)
with directive lines starting `//%`.  Executable code of /repo NEVER appears in a template: it is
pulled in from the expansion by the directives, verbatim except for the rules X1..X10 of DESIGN.md.

Directives
    //% unit <name>
    //% profile default|nosse2|force32
    //% props C18 C20                      default property list for following fns
    //% item <path> [flags]                insert an item (struct/enum/const/fn/impl...) verbatim
    //% fn <path> [flags]                  insert a fn with clauses injected; followed by sections
    //%% sig                               ... lines: requires/ensures/decreases (before body brace)
    //%% loop <k> [binder <name>]          ... lines: invariant/decreases for the k-th loop
    //%% at <anchor>                       ... lines: proof/ghost text at the anchor
    //%% attr                              ... lines: attributes placed before the fn
    //% end
  path    = segments separated by ' / ' (impl headers contain '::' and spaces), matched after
            whitespace normalisation, e.g.
            constant_time / impl<const N : usize> CtZero for &[u8; N] / ct_zero
  flags   = pub (widen fn visibility) | x4 | x5 | x8 | x9 | x10=<uN>... | notwin | props=C01,C02
            | header (insert only the item header up to and including '{')
            | nobody (drop a provided body and keep the signature, used for trait stubs)
  anchors = fn-start | fn-end | loop <k> before|after|start|end | call <k> <callee> before|after
            | stmt <k> before|after (k-th top-level statement of the fn body) | macro <k>
"""
import re, sys, json, os

# ---------------------------------------------------------------------------------- parsing
ITEM_RE = re.compile(r'^(?P<ind> *)(?P<attrs>(?:#\[[^\]]*\]\s*)*)(?P<vis>pub(?:\([^)]*\))? )?'
                     r'(?P<rest>(?:unsafe |const |default |extern "C" )*'
                     r'(?:mod|fn|struct|enum|impl|trait|const|static|type|use|macro_rules!)\b.*)$')


class LostAnchor(Exception):
    pass


class Item:
    def __init__(self, depth, start, end, lines, kind, name, header_line):
        self.depth, self.start, self.end, self.lines = depth, start, end, lines
        self.kind, self.name, self.header_line = kind, name, header_line
        self.children = []

    def text(self):
        return "\n".join(self.lines)


def norm(s):
    return re.sub(r'\s+', ' ', s).strip()


def norm_seg(s):
    """path-segment key: whitespace-free, with `::core::x::Trait` / `core::x::Trait` written as `Trait` (so a derived impl
    as rustc prints it and a hand-written `impl Clone for T` are the same anchor)"""
    s = re.sub(r'\s+', '', s)
    s = re.sub(r'(?<![A-Za-z0-9_])(?:::)?(?:core|std)::(?:[a-z_]+::)+(?=[A-Z])', '', s)
    return s


def classify(rest):
    rest = re.sub(r'^(unsafe |const |default |extern "C" )+(?=(fn|impl|trait)\b)', '', rest)
    m = re.match(r'(mod|fn|struct|enum|trait|const|static|type)\s+([A-Za-z_][A-Za-z0-9_]*)', rest)
    if m:
        return m.group(1), m.group(2)
    if rest.startswith('impl'):
        return 'impl', None
    if rest.startswith('use'):
        return 'use', norm(rest.rstrip(';'))
    if rest.startswith('macro_rules!'):
        return 'macro', norm(rest)
    return 'other', norm(rest)


def _code(line):
    code = re.sub(r'"(?:\\.|[^"\\])*"', '""', line)
    code = re.sub(r"'(?:\\.|[^'\\])'", "' '", code)
    return code.split('//')[0]


def parse(lines, lo, hi, depth):
    items = []
    i = lo
    col = 4 * depth
    pending = None
    while i < hi:
        ln = lines[i]
        stripped = ln.strip()
        ind = len(ln) - len(ln.lstrip(' '))
        if not stripped or ind != col:
            i += 1
            continue
        if stripped.startswith('//'):
            i += 1
            continue
        if stripped.startswith('#[') and not ITEM_RE.match(ln):
            if pending is None:
                pending = i
            # multi-line attribute: skip to its balanced end
            bal = 0
            j = i
            while j < hi:
                c = _code(lines[j])
                bal += c.count('[') - c.count(']')
                if bal <= 0:
                    break
                j += 1
            i = j + 1
            continue
        m = ITEM_RE.match(ln)
        if not m:
            pending = None
            i += 1
            continue
        start = pending if pending is not None else i
        pending = None
        j = i
        end = None
        bal = 0
        hdr_end = None
        while j < hi:
            code = _code(lines[j])
            for ch in code:
                if ch in '{([':
                    if ch == '{' and bal == 0 and hdr_end is None:
                        hdr_end = j
                    bal += 1
                elif ch in '})]':
                    bal -= 1
            s2 = code.strip()
            if bal == 0 and (s2.endswith(';') or s2.endswith('}')):
                end = j
                break
            j += 1
        if end is None:
            end = i
        kind, name = classify(m.group('rest'))
        if kind == 'impl':
            he = hdr_end if hdr_end is not None else i
            hdr = " ".join(l.strip() for l in lines[i:he + 1])
            hdr = hdr.split('{')[0]
            name = norm(hdr)
        it = Item(depth, start, end, lines[start:end + 1], kind, name, i)
        if kind in ('mod', 'impl', 'trait') and end > i and hdr_end is not None:
            it.children = parse(lines, hdr_end + 1, end, depth + 1)
        items.append(it)
        i = end + 1
    return items


class Expansion:
    def __init__(self, text):
        self.lines = text.split('\n')
        self.items = parse(self.lines, 0, len(self.lines), 0)

    def find(self, path):
        cur = self.items
        node = None
        for seg in path:
            which = 0
            mm = re.search(r'\s#(\d+)$', seg)          # `impl Fe #2`: the second item of that name in the module
            if mm:
                which = int(mm.group(1)) - 1
                seg = seg[:mm.start()]
            seg_n = norm_seg(seg)
            nxt = [x for x in cur if x.name is not None and norm_seg(x.name) == seg_n and x.kind != 'use']
            nxt = nxt[which:]
            if not nxt:
                have = sorted(set(x.name for x in cur if x.name and x.kind != 'use'))
                raise LostAnchor("lost anchor: segment %r of %r not found (have: %s)" % (seg, " / ".join(path), have[:60]))
            # prefer non-mod-declaration with body
            node = nxt[0]
            cur = node.children
        return node


# ---------------------------------------------------------------------------------- masking helpers
def mask(text):
    """same-length copy with string/char literals and comments blanked"""
    out = list(text)
    i = 0
    n = len(text)
    while i < n:
        c = text[i]
        if c == '"':
            j = i + 1
            while j < n and text[j] != '"':
                j += 2 if text[j] == '\\' else 1
            for k in range(i + 1, min(j, n)):
                out[k] = ' '
            i = j + 1
            continue
        if c == '/' and i + 1 < n and text[i + 1] == '/':
            j = text.find('\n', i)
            j = n if j < 0 else j
            for k in range(i, j):
                out[k] = ' '
            i = j
            continue
        if c == "'" and i + 2 < n and (text[i + 2] == "'" or (text[i + 1] == '\\' and i + 3 < n and text[i + 3] == "'")):
            j = i + (3 if text[i + 1] == '\\' else 2)
            for k in range(i + 1, j):
                out[k] = ' '
            i = j + 1
            continue
        i += 1
    return "".join(out)


def match_close(m, open_pos):
    pairs = {'{': '}', '(': ')', '[': ']'}
    o = m[open_pos]
    c = pairs[o]
    d = 0
    for k in range(open_pos, len(m)):
        if m[k] == o:
            d += 1
        elif m[k] == c:
            d -= 1
            if d == 0:
                return k
    raise LostAnchor("unbalanced bracket")


def body_open(text):
    """index of '{' opening the fn body (first '{' at ()[] balance 0), or -1 for a declaration"""
    m = mask(text)
    bal = 0
    for k, c in enumerate(m):
        if c in '([':
            bal += 1
        elif c in ')]':
            bal -= 1
        elif c == '{' and bal == 0:
            return k
        elif c == ';' and bal == 0:
            return -1
    return -1


def loops(text):
    m = mask(text)
    res = []
    for mm in re.finditer(r'(?<![A-Za-z0-9_\'])(while|for|loop)(?![A-Za-z0-9_])', m):
        # `for` in `impl X for Y` / HRTB never occurs inside fn bodies we extract
        bal = 0
        k = mm.end()
        while k < len(m):
            c = m[k]
            if c in '([':
                bal += 1
            elif c in ')]':
                bal -= 1
            elif c == '{' and bal == 0:
                break
            k += 1
        if k >= len(m):
            continue
        res.append((mm.start(), k, match_close(m, k)))
    return res


def top_statements(text, bo=None):
    """[(start,end)] of the statements of a block (default: the fn body), split at ';' or a closing '}' at depth 1"""
    m = mask(text)
    if bo is None:
        bo = body_open(text)
    bc = match_close(m, bo)
    res = []
    k = bo + 1
    start = None
    depth = 0
    while k < bc:
        c = m[k]
        if start is None and not c.isspace():
            start = k
        if c in '{([':
            depth += 1
        elif c in '})]':
            depth -= 1
            if depth == 0 and c == '}':
                # block-like statement ends here unless followed by ';' or '.' / else
                j = k + 1
                while j < bc and m[j].isspace():
                    j += 1
                if m[j:j + 4] == 'else' or m[j] in '.;?':
                    k += 1
                    continue
                res.append((start, k + 1))
                start = None
        elif c == ';' and depth == 0:
            res.append((start if start is not None else k, k + 1))
            start = None
        k += 1
    if start is not None:
        res.append((start, bc))
    return res


# ---------------------------------------------------------------------------------- rules X1..X10
DROP_ATTR = re.compile(r'^\s*#!?\[(inline[^\]]*|rustfmt::skip|allow[^\]]*|automatically_derived|must_use[^\]]*|'
                       r'doc[^\]]*|coverage[^\]]*|cfg[^\]]*|derive[^\]]*|repr[^\]]*|target_feature[^\]]*|'
                       r'rustc_[^\]]*|cold|track_caller|deprecated[^\]]*)\]\s*$', re.M)


def strip_x1_x2(text, widen_fn=False, log=None):
    t = re.sub(r'^\s*//[/!].*$', '', text, flags=re.M)
    t = DROP_ATTR.sub('', t)
    t = re.sub(r'\bpub\((crate|super|in [^)]*)\) ', 'pub ', t)
    t = re.sub(r'\n\s*\n+', '\n', t)
    # X1 also covers `macro_rules!` definitions that rustc's pretty-printer leaves in a function body: every use has been
    # expanded already, so the definition is dead text (and would shift textual call anchors)
    while True:
        m = mask(t)
        mm = re.search(r'\bmacro_rules!\s*[A-Za-z_][A-Za-z0-9_]*\s*\{', m)
        if not mm:
            break
        e = match_close(m, mm.end() - 1)
        t = t[:mm.start()] + t[e + 1:]
    return t


def widen_struct_fields(text):
    """X2 for struct items: every field becomes pub"""
    m = mask(text)
    bo = m.find('{')
    po = m.find('(')
    if bo >= 0 and (po < 0 or bo < po):
        # named fields
        out = []
        for ln in text.split('\n'):
            mm = re.match(r'^(\s+)([a-z_][A-Za-z0-9_]*\s*:.*)$', ln)
            if mm and not ln.strip().startswith('pub'):
                ln = mm.group(1) + 'pub ' + mm.group(2)
            out.append(ln)
        return "\n".join(out)
    if po >= 0:
        pc = match_close(m, po)
        inner = text[po + 1:pc]
        parts = split_top(inner, ',')
        parts = [p if p.strip().startswith('pub') or not p.strip() else ' pub ' + p.strip() for p in parts]
        return text[:po + 1] + ",".join(parts) + text[pc:]
    return text


def split_top(s, sep):
    m = mask(s)
    res = []
    d = 0
    last = 0
    for k, c in enumerate(m):
        if c in '([{<':
            d += 1
        elif c in ')]}>':
            d -= 1
        elif c == sep and d == 0:
            res.append(s[last:k])
            last = k + 1
    res.append(s[last:])
    return res


def rule_x5(text, log):
    """assert_eq!/assert_ne! expanded form -> if !(a == b) { panic }"""
    pat = re.compile(r'match \(&(?P<a>.+?), &(?P<b>.+?)\) \{\s*\(left_val, right_val\) => \{\s*'
                     r'if (?P<neg>!?)\(\*left_val == \*right_val\) \{\s*'
                     r'let kind = ::core::panicking::AssertKind::(?:Eq|Ne);\s*'
                     r'::core::panicking::assert_failed\(kind, &\*left_val,\s*&\*right_val,\s*(?P<msg>.*?)\);\s*\}\s*\}\s*\};?',
                     re.S)

    def rep(mm):
        a, b = mm.group('a'), mm.group('b')
        op = '==' if mm.group('neg') == '!' else '!='
        new = 'if !(%s %s %s) { ::core::panicking::panic("assertion failed") };' % (a, op, b)
        log.append({'rule': 'X5', 'before': norm(mm.group(0))[:160], 'after': new})
        return new
    return pat.sub(rep, text)


def rule_x8(text, log):
    """identifiers bound by a `for` pattern over .iter()/.iter_mut() are references; where one is a direct operand
    of ^ | ^= |= &= an explicit `*` is inserted (core's forward_ref_binop!/forward_ref_op_assign! impls are exactly
    that dereference)."""
    m = mask(text)
    refs = set()
    for mm in re.finditer(r'\bfor\s+(\(?[A-Za-z0-9_,\s()]+\)?)\s+in\s+([^{]+)\{', m):
        pat, expr = mm.group(1), mm.group(2)
        if '.iter()' not in expr and '.iter_mut()' not in expr:
            continue
        for idn in re.findall(r'[A-Za-z_][A-Za-z0-9_]*', pat):
            if idn != 'mut':
                refs.add(idn)
    if not refs:
        return text
    alt = '|'.join(sorted(refs))
    edits = []
    # right operand:  <op> ident   (ident not followed by . ( [ , not preceded by *)
    for mm in re.finditer(r'(\^=|\|=|&=|\^|(?<!\|)\|(?!\|))\s*(' + alt + r')\b(?!\s*[.(\[])', m):
        edits.append(mm.start(2))
    # left operand:   ident <op>   (binary ^ or |, not compound, ident not preceded by * or .)
    for mm in re.finditer(r'(?<![*.A-Za-z0-9_])(' + alt + r')\s*(\^|(?<!\|)\|(?!\|))(?!=)', m):
        edits.append(mm.start(1))
    out = text
    for pos in sorted(set(edits), reverse=True):
        if pos > 0 and out[pos - 1] == '*':
            continue
        ls = out.rfind('\n', 0, pos) + 1
        le = out.find('\n', pos)
        before = out[ls:le if le >= 0 else len(out)].strip()
        out = out[:pos] + '*' + out[pos:]
        le = out.find('\n', pos)
        log.append({'rule': 'X8', 'before': before, 'after': out[ls:le if le >= 0 else len(out)].strip()})
    return out


def rule_x4(text, log):
    """irrefutable array patterns -> one let per element"""
    def rep_struct(mm):
        ind, ctor, names, src = mm.group(1), mm.group(2), mm.group(3), mm.group(4)
        ns = [n.strip() for n in names.split(',') if n.strip()]
        src = src.strip()
        base = src[1:].strip() if src.startswith('*') else src
        outl = []
        for i, n in enumerate(ns):
            mut = ''
            if n.startswith('mut '):
                mut, n = 'mut ', n[4:]
            if ctor:
                outl.append('%slet %s%s = %s.0[%d];' % (ind, mut, n, base, i))
            else:
                outl.append('%slet %s%s = %s[%d];' % (ind, mut, n, base, i))
        log.append({'rule': 'X4', 'before': norm(mm.group(0)), 'after': norm(" ".join(outl))})
        return "\n".join(outl)
    t = re.sub(r'^( *)let ([A-Za-z_][A-Za-z0-9_]*)\(\[([^\]]+)\]\) =\s*([^;]+);', rep_struct, text, flags=re.M)
    t = re.sub(r'^( *)let ()\[([^\]]+)\] =\s*([^;]+);', rep_struct, t, flags=re.M)
    return t


def rule_x9(text, log, names=None):
    """binary operators on reference operands (&a op &b, x op &b) -> method call form; with `x9=a,b` also `a op b` for the
    listed local names (variables that hold references)"""
    ops = {'+': 'add', '-': 'sub', '*': 'mul'}
    pat = re.compile(r'(?<![A-Za-z0-9_)\]])(&?[a-z_][A-Za-z0-9_]*) ([-+*]) (&[a-z_][A-Za-z0-9_]*|self)\b(?!\s*[.(\[])')

    def rep(mm):
        a, op, b = mm.group(1), mm.group(2), mm.group(3)
        new = '(%s).%s(%s)' % (a, ops[op], b)
        log.append({'rule': 'X9', 'before': mm.group(0), 'after': new})
        return new
    prev = None
    t = text
    while prev != t:
        prev = t
        t = pat.sub(rep, t, count=1)
    # `&x.m() op &y` (a method call result borrowed as left operand), e.g. `(&z2.invert() * &x2)`
    pat2 = re.compile(r'&([a-z_][A-Za-z0-9_]*\.[a-z_][A-Za-z0-9_]*\(\)) ([-+*]) (&[a-z_][A-Za-z0-9_]*)\b')

    def rep2(mm):
        new = '(&%s).%s(%s)' % (mm.group(1), ops[mm.group(2)], mm.group(3))
        log.append({'rule': 'X9', 'before': mm.group(0), 'after': new})
        return new
    t = pat2.sub(rep2, t)
    if names:
        alt = '|'.join(re.escape(n) for n in names)
        pat3 = re.compile(r'(?<![A-Za-z0-9_.)\]])(%s) ([-+*]) (%s)\b(?!\s*[.(\[])' % (alt, alt))

        def rep3(mm):
            new = '(%s).%s(%s)' % (mm.group(1), ops[mm.group(2)], mm.group(3))
            log.append({'rule': 'X9', 'before': mm.group(0), 'after': new})
            return new
        t = pat3.sub(rep3, t)
    return t


def rule_x10(text, log, ty):
    """uN::{to,from}_{le,be}_bytes -> wrapper stubs"""
    def rep_from(mm):
        new = '__verif_%s_from_%s_bytes(' % (mm.group(1), mm.group(2))
        log.append({'rule': 'X10', 'before': mm.group(0), 'after': new})
        return new
    t = re.sub(r'\b(u16|u32|u64|u128)::from_(le|be)_bytes\(', rep_from, text)

    t = re.sub(r'\b(u16|u32|u64|u128)::to_(le|be)_bytes\(', lambda mm: (log.append({'rule': 'X10', 'before': mm.group(0), 'after': '__verif_%s_to_%s_bytes(' % (mm.group(1), mm.group(2))}) or '__verif_%s_to_%s_bytes(' % (mm.group(1), mm.group(2))), t)
    if ty:
        # method form `<recv>.to_le_bytes()`: the receiver is found by walking back over a balanced (...) group and/or a path/literal
        while True:
            m = mask(t)
            mm = re.search(r'\.to_(le|be)_bytes\(\)', m)
            if not mm:
                break
            k = mm.start()
            j = k
            if j > 0 and m[j - 1] == ')':
                d = 0
                while j > 0:
                    j -= 1
                    if m[j] == ')':
                        d += 1
                    elif m[j] == '(':
                        d -= 1
                        if d == 0:
                            break
            while j > 0 and (m[j - 1].isalnum() or m[j - 1] in '_.[]:'):
                j -= 1
            recv = t[j:k]
            lit = re.fullmatch(r'\d+(u16|u32|u64|u128)', recv.strip())
            new = '__verif_%s_to_%s_bytes(%s)' % (lit.group(1) if lit else ty, mm.group(1), recv)
            log.append({'rule': 'X10', 'before': norm(t[j:mm.end()]), 'after': norm(new)})
            t = t[:j] + new + t[mm.end():]
    return t


def rule_x12(text, log):
    """byte-string literals b"..." -> the array literal they denote (&[b0, b1, ...]); Verus leaves the contents of a
    byte-string literal uninterpreted"""
    def rep(mm):
        raw = mm.group(1)
        bs = bytes(raw, 'ascii').decode('unicode_escape').encode('latin-1')
        new = '&[' + ", ".join('%du8' % b for b in bs) + ']'
        log.append({'rule': 'X12', 'before': mm.group(0), 'after': new})
        return new
    return re.sub(r'(?<![A-Za-z0-9_])b"((?:\\.|[^"\\])*)"', rep, text)


def rule_x14(text, log):
    """`const NAME: uN = <expression of integer literals and + - * << >> | & ^ ( )>;` -> the literal it evaluates to.  Verus
    raises an overflow obligation on a shift inside a const initialiser and offers no place to discharge it; rustc's const
    evaluation gives exactly this value (the folded literal is re-derived from the source on every run)"""
    mm = re.search(r'(const\s+[A-Za-z_][A-Za-z0-9_]*\s*:\s*(u8|u16|u32|u64|u128|usize)\s*=\s*)([^;]+);', text)
    if not mm:
        return text
    expr = mm.group(3)
    if not re.fullmatch(r'[0-9a-fA-Fx_\s()+\-*<>|&^]+', expr) or re.fullmatch(r'\s*[0-9a-fA-Fx_]+\s*', expr):
        return text
    bits = {'u8': 8, 'u16': 16, 'u32': 32, 'u64': 64, 'u128': 128, 'usize': 64}[mm.group(2)]
    val = eval(expr.replace('_', ''), {'__builtins__': {}})
    if val < 0 or val >= (1 << bits):
        return text
    new = mm.group(1) + hex(val) + ';'
    log.append({'rule': 'X14', 'before': norm(mm.group(0)), 'after': norm(new)})
    return text[:mm.start()] + new + text[mm.end():]


def nested_fn_items(text):
    """[(name, start, end)] of `fn` items declared directly in the body of the function `text` (rule X15)"""
    m = mask(text)
    bo = body_open(text)
    if bo < 0:
        return []
    close = match_close(m, bo)
    res = []
    k = bo + 1
    depth = 0
    while k < close:
        c = m[k]
        if c == '{':
            depth += 1
        elif c == '}':
            depth -= 1
        elif depth == 0:
            mm = re.compile(r'((?:#\[[^\]]*\]\s*)*)(?:pub\s+)?(?:const\s+)?(?:unsafe\s+)?fn\s+([A-Za-z_][A-Za-z0-9_]*)').match(m, k)
            if mm and (k == bo + 1 or not (m[k - 1].isalnum() or m[k - 1] == '_')):
                # the item runs to the close of its own body
                rel = body_open(text[mm.start():close])
                if rel >= 0:
                    e = match_close(m, mm.start() + rel)
                    res.append((mm.group(2), mm.start(), e + 1))
                    k = e + 1
                    continue
        k += 1
    return res


def rule_x15(text, log):
    """X15: `fn` items nested in a function body are emitted at module level (addressed as `outer :: inner` by their own fn
    directive) and removed from the enclosing body.  Item position does not affect Rust semantics; the names must not clash
    with module-level items (rustc rejects a clash)."""
    items = nested_fn_items(text)
    out = text
    for name, a, b in sorted(items, key=lambda t: -t[1]):
        out = out[:a] + out[b:]
    if items:
        log.append({'rule': 'X15', 'before': 'nested fn items: ' + ", ".join(n for n, _, _ in items), 'after': 'hoisted to module level'})
    return out


def rule_x17(text, log):
    """X17: tuple-struct patterns in parameter position, `Name(x): &Name`, become a named parameter plus a `let` on its field:
    `__pK: &Name` and `let x = &__pK.0;` as first statement (Verus' front end accepts only identifier parameters)"""
    bo = body_open(text)
    if bo < 0:
        return text
    head, body = text[:bo], text[bo:]
    lets = []
    cnt = [0]

    def rep(mm):
        k = cnt[0]
        cnt[0] += 1
        lets.append('let %s = &__p%d.0;' % (mm.group(2), k))
        new = '__p%d: &%s' % (k, mm.group(3))
        log.append({'rule': 'X17', 'before': norm(mm.group(0)), 'after': new + ' + ' + lets[-1]})
        return new
    head2 = re.sub(r'\b([A-Z][A-Za-z0-9_]*)\(([a-z_][A-Za-z0-9_]*)\)\s*:\s*&\s*([A-Z][A-Za-z0-9_]*)', rep, head)
    if not lets:
        return text
    return head2 + body[0] + "\n" + "\n".join(lets) + body[1:]


def rule_x18(text, log, names):
    """X18: scalar replacement of a local array whose every access uses a literal index (`vs[12]` -> `vs_12`, the declaration
    `let mut vs: [T; N] = [0; N];` -> N scalar declarations, `vs[a..b].copy_from_slice(e)` -> element assignments from `e[k - a]`;
    with `name:N`, `let mut name = *src;` -> N scalar declarations initialised from `src[k]`).
    Any other use of the array makes the rule inapplicable (LostAnchor).  The transformation is the classic scalar replacement
    of aggregates; it is applied because the solver's cost on long chains of writes through one array is quadratic."""
    t = text
    for name in names:
        m = mask(t)
        if ':' in name:
            # `name:N`: the local is a copy of an array behind a reference, `let mut name = *src;` with N elements (a wrong N
            # leaves an undeclared scalar or an out-of-range index: never silent)
            name, n = name.split(':')
            n = int(n)
            dm = re.search(r'let\s+mut\s+' + re.escape(name) + r'\s*=\s*\*\s*([a-z_][A-Za-z0-9_]*)\s*;', m)
            if not dm:
                raise LostAnchor("x18: declaration of %s not in the expected form" % name)
            ty = 'copy of *' + dm.group(1)
            decl = " ".join('let mut %s_%d = %s[%d];' % (name, k, dm.group(1), k) for k in range(n))
        else:
            dm = re.search(r'let\s+mut\s+' + re.escape(name) + r'\s*:\s*\[\s*([A-Za-z0-9_]+)\s*;\s*(\d+)\s*\]\s*=\s*\[\s*0\s*;\s*\d+\s*\]\s*;', m)
            if not dm:
                raise LostAnchor("x18: declaration of %s not in the expected form" % name)
            ty, n = dm.group(1), int(dm.group(2))
            decl = " ".join('let mut %s_%d: %s = 0;' % (name, k, ty) for k in range(n))
        t = t[:dm.start()] + decl + t[dm.end():]
        # range copies
        while True:
            m = mask(t)
            cm = re.search(re.escape(name) + r'\[\s*(\d+)\s*\.\.\s*(\d+)\s*\]\s*\.copy_from_slice\(', m)
            if not cm:
                break
            close = match_close(m, cm.end() - 1)
            arg = t[cm.end():close].strip()
            if arg.startswith('&'):
                arg = arg[1:].strip()
            a, b = int(cm.group(1)), int(cm.group(2))
            semi = m.index(';', close)
            rep = " ".join('%s_%d = %s[%d];' % (name, k, arg, k - a) for k in range(a, b))
            t = t[:cm.start()] + rep + t[semi + 1:]
        cnt = [0]

        def idx(mm):
            cnt[0] += 1
            return '%s_%s' % (name, mm.group(1))
        t = re.sub(r'(?<![A-Za-z0-9_])' + re.escape(name) + r'\[\s*(\d+)\s*\]', idx, t)
        if re.search(r'(?<![A-Za-z0-9_])' + re.escape(name) + r'(?![A-Za-z0-9_])', mask(t)):
            raise LostAnchor("x18: %s is used other than through literal indices" % name)
        log.append({'rule': 'X18', 'before': 'array local %s: [%s; %d]' % (name, ty, n), 'after': '%d scalar locals, %d indexed uses rewritten' % (n, cnt[0])})
    return t


def rule_x13(text, log):
    """by-value `mut self` (rejected by Verus 0.2026.09.13): the parameter is written `self` and moved into a mutable local
    that the body uses instead: `fn f(mut self) { B }` -> `fn f(self) { let mut __self = self; B[self := __self] }`"""
    bo = body_open(text)
    m = mask(text)
    mm = re.search(r'\(\s*mut\s+self\b', m[:bo])
    if not mm or bo < 0:
        return text
    hdr = text[:bo]
    hdr2 = hdr[:mm.start()] + '(self' + hdr[mm.end():]
    body = text[bo:]
    mb = mask(body)
    out = []
    last = 0
    for w in re.finditer(r'(?<![A-Za-z0-9_])self(?![A-Za-z0-9_])', mb):
        out.append(body[last:w.start()])
        out.append('__self')
        last = w.end()
    out.append(body[last:])
    body2 = "".join(out)
    body2 = body2[0] + ' let mut __self = self;' + body2[1:]
    log.append({'rule': 'X13', 'before': norm(hdr)[:120], 'after': norm(hdr2)[:120] + ' { let mut __self = self; ... }'})
    return hdr2 + body2


# ---------------------------------------------------------------------------------- injection
def enclosing_statement(text, idx):
    """innermost statement (start, end) containing position idx"""
    m = mask(text)
    bo = body_open(text)
    best = None
    while True:
        found = None
        for s_, e_ in top_statements(text, bo):
            if s_ <= idx < e_:
                found = (s_, e_)
                break
        if not found:
            return best
        best = found
        # innermost '{' block inside this statement that contains idx
        nxt = None
        k = found[0]
        while k < idx:
            if m[k] == '{':
                c = match_close(m, k)
                if c > idx:
                    nxt = k
                    break
                k = c
            k += 1
        if nxt is None:
            return best
        bo = nxt


def resolve_anchor(text, anchor):
    m = mask(text)
    a = anchor.split()
    scope = None
    if a[0] == 'in-loop':
        # `in-loop <k> let|assign ...`: the statement anchors below, relative to the body of the k-th loop
        ls = loops(text)
        k = int(a[1])
        if k > len(ls):
            raise LostAnchor("lost anchor: loop %d (function has %d loops)" % (k, len(ls)))
        scope = ls[k - 1][1]
        a = a[2:]
    if a[0] == 'fn-start':
        return body_open(text) + 1
    if a[0] == 'fn-end':
        st = top_statements(text)
        if st and not m[st[-1][0]:st[-1][1]].rstrip().endswith((';', '}')) and '->' not in m[:body_open(text)]:
            # unit fn ending in an unterminated call expression: ghost code goes after it, behind an added `;`
            # (for a `()`-typed tail expression `e` and `e;` are the same program)
            return (st[-1][1], ';')
        if st and not m[st[-1][0]:st[-1][1]].rstrip().endswith((';', '}')):
            return st[-1][0]        # the body ends in a tail expression: ghost code goes before it
        if st and not m[st[-1][0]:st[-1][1]].rstrip().endswith(';') and '->' in m[:body_open(text)]:
            return st[-1][0]        # value-returning fn whose tail expression is block-like (struct literal, if/match)
        return match_close(m, body_open(text))
    if a[0] == 'loop':
        ls = loops(text)
        k = int(a[1])
        if k > len(ls):
            raise LostAnchor("lost anchor: loop %d (function has %d loops)" % (k, len(ls)))
        kw, ob, cb = ls[k - 1]
        return {'before': kw, 'after': cb + 1, 'start': ob + 1, 'end': cb}[a[2]]
    if a[0] == 'call':
        k, callee, where = int(a[1]), a[2], a[3]
        idx = -1 if scope is None else scope
        lim = len(m) if scope is None else match_close(m, scope)
        for _ in range(k):
            mm = re.compile(r'(?<![A-Za-z0-9_])' + re.escape(callee) + r'\s*(?:::<[^>]*>)?\(').search(m, idx + 1, lim)
            if not mm:
                raise LostAnchor("lost anchor: call %d of %s" % (k, callee))
            idx = mm.start()
        es = enclosing_statement(text, idx)
        if es is None:
            raise LostAnchor("lost anchor: statement of call %d of %s" % (k, callee))
        return es[0] if where == 'before' else es[1]
    if a[0] == 'text':
        # `text <k> <tokens...> before|after`: the statement holding the k-th occurrence of the token sequence (whitespace-insensitive)
        k, where = int(a[1]), a[-1]
        pat = re.compile(r'\s*'.join(re.escape(tk) for tk in a[2:-1]))
        pos = [mm.start() for mm in pat.finditer(m)]
        if k > len(pos):
            raise LostAnchor("lost anchor: %s (found %d)" % (anchor, len(pos)))
        es = enclosing_statement(text, pos[k - 1])
        if es is None:
            raise LostAnchor("lost anchor: statement of %s" % anchor)
        return es[0] if where == 'before' else es[1]
    if a[0] == 'stmt':
        st = top_statements(text)
        k = int(a[1])
        if k > len(st):
            raise LostAnchor("lost anchor: stmt %d (function has %d statements)" % (k, len(st)))
        s, e = st[k - 1]
        return s if a[2] == 'before' else e
    if a[0] in ('let', 'assign'):
        # def anchors keyed by variable: `let <name> before|after` = the top-level `let [mut] <name>` statement;
        # `assign <k> <lhs> before|after` = k-th top-level statement that (compound-)assigns <lhs>
        st = top_statements(text, scope)
        if a[0] == 'let':
            if a[1].isdigit():
                k, name, where = int(a[1]), a[2], a[3]
            else:
                k, name, where = 1, a[1], a[2]
            pat = re.compile(r'let\s+(?:mut\s+)?' + re.escape(name) + r'\b')
        else:
            k, name, where = int(a[1]), a[2], a[3]
            pat = re.compile(re.escape(name) + r'\s*(?:[-+*/%^|&]|<<|>>)?=(?!=)')
        cnt = 0
        for s_, e_ in st:
            if pat.match(norm(m[s_:e_])):
                cnt += 1
                if cnt == k:
                    return s_ if where == 'before' else e_
        raise LostAnchor("lost anchor: %s (found %d matching statements)" % (anchor, cnt))
    if a[0] in ('return', 'break'):
        k = int(a[1])
        pos = [mm.start() for mm in re.finditer(r'(?<![A-Za-z0-9_])' + a[0] + r'(?![A-Za-z0-9_])', m)]
        if k > len(pos):
            raise LostAnchor("lost anchor: %s %d (have %d)" % (a[0], k, len(pos)))
        return pos[k - 1]
    if a[0] == 'macro':
        # k-th lone ';' line (rustc leaves one behind each expanded statement macro)
        k = int(a[1])
        pos = [mm.start() for mm in re.finditer(r'^\s*;\s*$', m, flags=re.M)]
        if k > len(pos):
            raise LostAnchor("lost anchor: macro boundary %d (have %d)" % (k, len(pos)))
        return m.index(';', pos[k - 1]) + 1
    raise LostAnchor("unknown anchor kind: " + anchor)


def name_return(text, name):
    """X3: `-> T` becomes `-> (name: T)` so that a postcondition can mention the result"""
    m = mask(text)
    bo = body_open(text)
    end = bo if bo >= 0 else m.rstrip().rfind(';')
    hdr = m[:end]
    # last '->' at ()[]<> depth 0 of the header that is outside the parameter list
    d = 0
    pos = -1
    k = 0
    while k < len(hdr):
        c = hdr[k]
        if c in '([':
            d += 1
        elif c in ')]':
            d -= 1
        elif c == '-' and hdr[k:k + 2] == '->' and d == 0:
            pos = k
        k += 1
    if pos < 0:
        return text
    tstart = pos + 2
    w = re.search(r'\bwhere\b', hdr[tstart:])
    tend = tstart + w.start() if w else end
    ty = text[tstart:tend].strip()
    if ty.startswith('(') and re.match(r'\(\s*[a-z_][A-Za-z0-9_]*\s*:', ty):
        return text
    return text[:tstart] + ' (' + name + ': ' + ty + ') ' + text[tend:]


def inject(text, sections, twin=False, ret='r', degraded=None):
    if "".join(sections.get('sig', [])).strip():
        text = name_return(text, ret)
    edits = []
    bo = body_open(text)
    sig = "\n".join(sections.get('sig', []))
    if twin and bo >= 0:
        # vacuity guard: under the function's own requires, `false` must NOT be provable at entry.  (An added
        # `ensures false` would instead poison every caller of the function.)
        edits.append((bo + 1, 999, "\nproof { assert(false); }\n"))
    if sig.strip():
        if bo >= 0:
            edits.append((bo, 0, "\n" + sig + "\n"))
        else:
            m = mask(text)
            semi = m.rstrip().rfind(';')
            edits.append((semi, 0, "\n" + sig + "\n"))
    for (k, binder), lines_ in sections.get('loops', {}).items():
        ls = loops(text)
        if k > len(ls):
            if degraded is not None:
                degraded.append('loop %d' % k)
                continue
            raise LostAnchor("lost anchor: loop %d (function has %d loops)" % (k, len(ls)))
        kw, ob, cb = ls[k - 1]
        edits.append((ob, 1, "\n" + "\n".join(lines_) + "\n"))
        if binder:
            mm = re.compile(r'\bin\b').search(mask(text), kw, ob)
            edits.append((mm.end(), 0, " %s:" % binder))
    order = 2
    for anchor, lines_ in sections.get('at', []):
        try:
            pos = resolve_anchor(text, anchor)
        except LostAnchor as e:
            if degraded is None:
                raise
            degraded.append(anchor)      # the function was restructured: this hint is dropped, the contract stays
            continue
        pre = ''
        if isinstance(pos, tuple):
            pos, pre = pos
        edits.append((pos, order, pre + "\n" + "\n".join(lines_) + "\n"))
        order += 1
    out = text
    for pos, _o, t in sorted(edits, key=lambda e: (e[0], e[1]), reverse=True):
        out = out[:pos] + t + out[pos:]
    attrs = "\n".join(sections.get('attr', []))
    if attrs:
        out = attrs + "\n" + out
    return out


# ---------------------------------------------------------------------------------- template
def parse_flags(words):
    fl = {}
    for w in words:
        if '=' in w:
            k, v = w.split('=', 1)
            fl[k] = v
        else:
            fl[w] = True
    return fl


def split_path_flags(rest):
    """'<path segs sep by " / "> [flags...]' ; flags start after ' -- '"""
    if ' -- ' in rest:
        p, f = rest.split(' -- ', 1)
        flags = parse_flags(f.split())
    else:
        p, flags = rest, {}
    return [s.strip() for s in p.split(' / ')], flags


def apply_rules(text, flags, log, path):
    mylog = []
    if 'x5' in flags or 'assert_failed' in text:
        text = rule_x5(text, mylog)
    if 'x4' in flags:
        text = rule_x4(text, mylog)
    if 'x8' in flags:
        text = rule_x8(text, mylog)
    if 'x9' in flags:
        v9 = flags['x9']
        text = rule_x9(text, mylog, v9.split(',') if isinstance(v9, str) else None)
    if 'x12' in flags:
        text = rule_x12(text, mylog)
    if 'x13' in flags:
        text = rule_x13(text, mylog)
    if 'x14' in flags:
        text = rule_x14(text, mylog)
    if 'x15' in flags:
        text = rule_x15(text, mylog)
    if 'x17' in flags:
        text = rule_x17(text, mylog)
    if 'x18' in flags:
        text = rule_x18(text, mylog, flags['x18'].split(','))
    if 'x10' in flags:
        v = flags['x10']
        text = rule_x10(text, mylog, v if isinstance(v, str) else None)
    for e in mylog:
        e['fn'] = " / ".join(path)
    log.extend(mylog)
    return text


def build_unit(template_text, expansions, twin=False):
    """expansions: {profile: Expansion}. Returns (unit_text, meta)"""
    lines = template_text.split('\n')
    out = []
    meta = {'unit': None, 'profile': 'default', 'fns': [], 'items': [], 'rules': [], 'lemmas': []}
    props = []
    depmode = False
    saved_props = []
    i = 0
    n = len(lines)

    def cur_line():
        return sum(s.count('\n') + 1 for s in out) + 1

    while i < n:
        ln = lines[i]
        s = ln.strip()
        if not s.startswith('//%'):
            out.append(ln)
            mm = re.match(r'\s*(?:pub )?(?:broadcast )?proof fn ([A-Za-z0-9_]+)', ln)
            if mm:
                meta['lemmas'].append(mm.group(1))
            i += 1
            continue
        d = s[3:].strip()
        if d.startswith('unit '):
            meta['unit'] = d.split()[1]
        elif d.startswith('profile '):
            meta['profile'] = d.split()[1]
        elif d.startswith('props '):
            props = d.split()[1:]
        elif d.startswith('rlimit ') or d.startswith('tier '):
            pass        # read by the driver (tools/vlib.py template_info)
        elif d.startswith('include ') and d.split()[1].startswith('std_') and d.split()[1] in meta.get('includes', []):
            pass        # assumed std specs are crate-global in Verus: declared once per unit, by the first module that needs them
        elif d.startswith('include '):
            inc = open(os.path.join(os.path.dirname(os.path.abspath(__file__)), '..', 'units', 'inc', d.split()[1])).read()
            il = inc.split('\n')
            if ' -- dep' in d:
                # dependency include: its functions are verified in this unit too (so callers see proved contracts, not
                # stubs) but are reported under the unit that owns them, not here
                il = ['//% depmode on'] + il + ['//% depmode off']
            lines[i + 1:i + 1] = il
            n = len(lines)
            meta.setdefault('includes', []).append(d.split()[1])
        elif d.startswith('depmode '):
            depmode = d.split()[1] == 'on'
            if depmode:
                saved_props = list(props)
                meta.setdefault('dep_ranges', []).append([cur_line(), None])
            else:
                props = saved_props
                meta['dep_ranges'][-1][1] = cur_line()
        elif d.startswith('consts '):
            # every `const` item declared directly in a module (so that a constant the code starts to use is simply there)
            path, flags = split_path_flags(d[7:])
            exp = expansions[meta['profile']]
            modit = exp.find(path)
            skip = set((flags.get('except') or '').split(',')) if isinstance(flags.get('except'), str) else set()
            for it in modit.children:
                if it.kind != 'const' or it.name in skip:
                    continue
                text = strip_x1_x2(it.text())
                if 'pub' in flags and not re.match(r'\s*pub ', text):
                    text = re.sub(r'^(\s*)', r'\1pub ', text, count=1)
                text = apply_rules(text, flags, meta['rules'], path + [it.name])
                start = cur_line()
                out.append(text)
                meta['items'].append({'path': " / ".join(path + [it.name]), 'kind': 'const', 'lines': [start, cur_line() - 1],
                                      'src_lines': [it.start + 1, it.end + 1]})
        elif d.startswith('item '):
            path, flags = split_path_flags(d[5:])
            exp = expansions[meta['profile']]
            it = exp.find(path)
            text = it.text()
            if 'header' in flags:
                m = mask(text)
                text = text[:m.index('{') + 1]
            text = strip_x1_x2(text)
            if it.kind == 'struct':
                text = widen_struct_fields(text)
            if 'pub' in flags and not re.match(r'\s*pub ', text):
                text = re.sub(r'^(\s*)', r'\1pub ', text, count=1)
            text = apply_rules(text, flags, meta['rules'], path)
            if 'execconst' in flags:
                # X16: `const N: T = e;` whose initialiser Verus cannot read as a spec expression (calls, indexing of other
                # constants) becomes `exec const N: T ensures <template lines> { e }`: same value, computed by the same
                # expression, with the stated postcondition proved from it
                ens = []
                while i + 1 < n and lines[i + 1].strip().startswith('//%%'):
                    ens.append(lines[i + 1].strip()[4:].strip())
                    i += 1
                mm = re.match(r'(\s*(?:pub(?:\([^)]*\))?\s+)?)const\s+([A-Za-z_][A-Za-z0-9_]*)\s*:\s*(.*?)\s*=\s*(.*);\s*$', text, re.S)
                if not mm:
                    raise LostAnchor("execconst: not a const item: %s" % path)
                before = norm(text)[:80]
                text = '%sexec const %s: %s\n    ensures %s\n{ %s }' % (mm.group(1), mm.group(2), mm.group(3), " ".join(ens), mm.group(4))
                meta['rules'].append({'rule': 'X16', 'fn': " / ".join(path), 'before': before, 'after': 'exec const with ensures'})
            start = cur_line()
            out.append(text)
            meta['items'].append({'path': " / ".join(path), 'kind': it.kind, 'lines': [start, cur_line() - 1],
                                  'src_lines': [it.start + 1, it.end + 1]})
        elif d.startswith('fn '):
            path, flags = split_path_flags(d[3:])
            sections = {'sig': [], 'loops': {}, 'at': [], 'attr': [], 'hoist': []}
            cur = None
            i += 1
            while i < n and lines[i].strip() != '//% end':
                l2 = lines[i]
                s2 = l2.strip()
                if s2.startswith('//%%'):
                    w = s2[4:].split()
                    if w[0] == 'sig':
                        cur = sections['sig']
                    elif w[0] == 'attr':
                        cur = sections['attr']
                    elif w[0] == 'hoist':
                        cur = sections['hoist']
                    elif w[0] == 'loop':
                        binder = w[3] if len(w) > 3 and w[2] == 'binder' else None
                        cur = sections['loops'].setdefault((int(w[1]), binder), [])
                    elif w[0] == 'at':
                        cur = []
                        sections['at'].append((" ".join(w[1:]), cur))
                    else:
                        raise LostAnchor("bad section: " + s2)
                else:
                    if cur is None:
                        raise LostAnchor("text outside a section in fn directive %s" % path)
                    cur.append(l2)
                i += 1
            exp = expansions[meta['profile']]
            inner = None
            if '::' in path[-1]:
                # `outer :: inner`: a fn item nested in the body of `outer` (rule X15)
                outer, inner = [t.strip() for t in path[-1].split('::')]
                it = exp.find(path[:-1] + [outer])
            else:
                it = exp.find(path)
            if it.kind != 'fn':
                raise LostAnchor("not a fn: %s" % path)
            text = strip_x1_x2(it.text())
            if inner is not None:
                cands = [(a, b) for nme, a, b in nested_fn_items(text) if nme == inner]
                if not cands:
                    raise LostAnchor("lost anchor: nested fn %s in %s" % (inner, outer))
                text = text[cands[0][0]:cands[0][1]]
                text = re.sub(r'^\s*#\[inline[^\]]*\]\s*', '', text)
            if 'pub' in flags and not re.match(r'\s*pub ', text):
                text = re.sub(r'^(\s*)', r'\1pub ', text, count=1)
            text = apply_rules(text, flags, meta['rules'], path)
            if 'nobody' in flags:
                bo = body_open(text)
                if bo >= 0:
                    text = text[:bo].rstrip() + ';'
            if sections['hoist']:
                # X11: a trait-impl method is verified as a free function (Self substituted, name and generics given);
                # the impl method itself is emitted by a `forward` directive whose body is only the call
                h = dict((l.split(None, 1)[0], l.split(None, 1)[1].strip()) for l in sections['hoist'] if l.strip())
                before = norm(text[:body_open(text)])
                text = re.sub(r'\bSelf\b', h['self'], text)
                text = re.sub(r'\bfn\s+' + re.escape(path[-1]) + r'\b', 'fn ' + h['name'] + h.get('generics', ''), text, count=1)
                if not re.match(r'\s*pub ', text):
                    text = re.sub(r'^(\s*)', r'\1pub ', text, count=1)
                meta['rules'].append({'rule': 'X11', 'fn': " / ".join(path), 'before': before, 'after': norm(text[:body_open(text)])})
            degraded = []
            text0 = text
            if depmode and "".join(sections['sig']).strip() and body_open(text) >= 0 and not sections['hoist']:
                # a function of a dependency include: only its contract is used here (callers are checked against it); its body
                # is verified by the unit that owns it, so it is not verified again
                sections = {'sig': sections['sig'], 'loops': {}, 'at': [], 'attr': sections['attr'] + ['#[verifier::external_body]'], 'hoist': []}
                flags = dict(flags, notwin=True)
            text = inject(text, sections, twin=twin and 'notwin' not in flags, ret=flags.get('ret', 'r'), degraded=degraded)
            if degraded:
                # hints may build on one another (ghost lets): when one loses its anchor, all hints of this function are
                # dropped and only its contract is kept
                bare = {'sig': sections['sig'], 'loops': {}, 'at': [], 'attr': sections['attr'], 'hoist': sections['hoist']}
                text = inject(text0, bare, twin=twin and 'notwin' not in flags, ret=flags.get('ret', 'r'))
            start = cur_line()
            out.append(text)
            p = flags['props'].split(',') if 'props' in flags else list(props)
            if depmode:
                p = []
            meta['fns'].append({'path': " / ".join(path), 'lines': [start, cur_line() - 1], 'props': p, 'dep': depmode,
                                'src_lines': [it.start + 1, it.end + 1], 'notwin': 'notwin' in flags, 'has_body': body_open(text) >= 0,
                                'has_sig': bool("".join(sections['sig']).strip()), 'degraded': degraded,
                                'n_loop_clauses': len(sections['loops']), 'n_proof_blocks': len(sections['at'])})
        elif d.startswith('forward '):
            path, flags = split_path_flags(d[8:])
            body = []
            i += 1
            while i < n and lines[i].strip() != '//% end':
                body.append(lines[i])
                i += 1
            exp = expansions[meta['profile']]
            it = exp.find(path)
            text = strip_x1_x2(it.text())
            out.append(text[:body_open(text)] + '{\n' + "\n".join(body) + '\n}')
        else:
            raise LostAnchor("unknown directive: " + s)
        i += 1
    return "\n".join(out), meta


if __name__ == '__main__':
    import argparse
    ap = argparse.ArgumentParser()
    ap.add_argument('template')
    ap.add_argument('--expansion', action='append', default=[], help='profile=path')
    ap.add_argument('--out')
    ap.add_argument('--twin', action='store_true')
    ap.add_argument('--tree', action='store_true')
    a = ap.parse_args()
    exps = {}
    for e in a.expansion:
        k, v = e.split('=', 1)
        exps[k] = Expansion(open(v).read())
    if a.tree:
        def show(its, d=0):
            for it in its:
                if it.kind == 'use':
                    continue
                print('  ' * d + "%s %s [%d-%d]" % (it.kind, it.name, it.start + 1, it.end + 1))
                show(it.children, d + 1)
        show(list(exps.values())[0].items)
        sys.exit(0)
    text, meta = build_unit(open(a.template).read(), exps, twin=a.twin)
    open(a.out, 'w').write(text)
    json.dump(meta, open(a.out + '.map.json', 'w'), indent=1)
