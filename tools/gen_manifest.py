#!/usr/bin/env python3
"""MANIFEST.json is generated from checks.toml (one section per property) so that the two never drift."""
import json, os, tomllib
ROOT = os.path.dirname(os.path.dirname(os.path.abspath(__file__)))
cfg = tomllib.load(open(os.path.join(ROOT, 'checks.toml'), 'rb'))
props = [json.loads(l)['id'] for l in open(os.path.join(ROOT, 'properties.jsonl')) if l.strip()]
checks, na = [], []
for p in props:
    c = cfg.get(p, {})
    if c.get('claimed'):
        checks.append({
            'property_id': p,
            'quick_cmd': 'bin/check %s --tier quick' % p,
            'thorough_cmd': 'bin/check %s --tier thorough' % p,
            'evidence_file': 'evidence/%s.json' % p,
            'replay_cmd_template': 'bin/check --replay {path}',
            'engine': c.get('engine', 'verus+kani'),
            'level_claimed': {'category': c.get('level', 'proof'), 'text': c['level_text'], 'design_ref': c.get('design_ref', 'DESIGN.md section 3 ' + p)},
            'level_note': c['level_note'],
            'technique': c.get('technique', 'contract-based deductive verification (Verus contracts on mechanically extracted real functions; Kani harnesses stating the same contracts on the real crate)'),
        })
    else:
        na.append({'property_id': p, 'reason': c.get('not_applicable', 'no check built yet in this round (work in progress; see DESIGN.md section 0)')})
m = {
    'version': 1,
    'setup_cmd': 'bin/setup',
    'hooks': {
        'guard': 'kani',
        'enable': 'no hook lives in /repo: checks copy the working tree to a scratch directory and append `#[cfg(kani)] #[path=..] mod __verif_<unit>;` lines to that copy (cfg(kani) is set by `cargo kani` only); Verus units are extracted from `cargo rustc -- -Zunpretty=expanded` of the same copy',
        'baseline_off_cmd': 'cd /repo && cargo test --workspace --no-fail-fast --offline',
        'source_commits': [],
        'add_only': True,
    },
    'engines': [
        {'name': 'verus-units', 'path': 'units/', 'serves_properties': sorted(p for p in props if cfg.get(p, {}).get('claimed')), 'kind_free_text': 'Verus 0.2026.09.13 on single-file units assembled on every run from rustc-expanded /repo text by tools/extract.py (templates units/*.vtpl hold only contracts, specs, lemmas and contract-only stubs)'},
        {'name': 'kani-harnesses', 'path': 'kani/', 'serves_properties': sorted(p for p in props if cfg.get(p, {}).get('claimed')), 'kind_free_text': 'Kani 0.68/CBMC harness modules compiled as cfg(kani) child modules of the real crate in a scratch copy; full-domain loop-free or constant-bound harnesses are complete proofs, anything else is labelled bounded'},
    ],
    'checks': checks,
    'not_applicable': na,
    'notes': 'Exit 2 of a check means undecided (lost anchor / tool limit), never an alarm. known_findings.jsonl lists genuine defects found (fixed: entries suppress nothing).',
}
json.dump(m, open(os.path.join(ROOT, 'MANIFEST.json'), 'w'), indent=1)
print('claimed:', [c['property_id'] for c in checks], 'not_applicable:', [x['property_id'] for x in na])
