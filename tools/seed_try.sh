#!/bin/bash
# seed_try.sh <seed dir under /verif/seeded> <property> [tier]  : confirm a seeded change, then run the check against it
# 1. scratch worktree: suite passes with the change; demo fails with it and passes without
# 2. apply to /repo, run bin/check <property>, revert /repo
set -u
S=/verif/seeded/$1; P=$2; T=${3:-quick}
WT=$(mktemp -d /tmp/seedchk-XXXX)
git -C /repo worktree add -q --detach "$WT" HEAD
loc=$(cat "$S/demo_location.txt" 2>/dev/null | head -1 | awk '{print $1}'); loc=${loc:-tests/seed_demo.rs}
if [ "${SKIP_CONFIRM:-0}" != 1 ]; then
  ( cd "$WT" && mkdir -p "$(dirname "$loc")" && cp "$S/demo.rs" "$loc" \
    && echo "== demo WITHOUT change" && (cargo test --offline ${DEMO_FEATURES:-} --test seed_demo 2>&1 | grep "test result" ) \
    ; git apply "$S/patch.diff" && echo "== suite WITH change" && (cargo test --offline --lib 2>&1 | grep "test result") \
    ; echo "== demo WITH change" && (cargo test --offline ${DEMO_FEATURES:-} --test seed_demo 2>&1 | grep "test result") )
fi
git -C /repo worktree remove --force "$WT"
echo "== check $P on /repo with the change applied"
EVB=$(mktemp -d /tmp/evbak-XXXX); cp -a /verif/evidence/. "$EVB"/
git -C /repo apply "$S/patch.diff" && (cd /verif && bin/check "$P" --tier "$T"; echo "exit=$?"); git -C /repo checkout -- .
cp -a "$EVB"/. /verif/evidence/; rm -rf "$EVB"   # evidence files must come from runs on the unchanged tree
git -C /repo status --short | head
