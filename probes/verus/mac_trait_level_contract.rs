use vstd::prelude::*;
verus! {

// Trait-level contract for `Mac`: abstract view (key, fed, done) + well-formedness.
pub uninterp spec fn mac_fn(alg: int, key: Seq<u8>, msg: Seq<u8>) -> Seq<u8>;

pub trait Mac {
    spec fn wf(&self) -> bool;
    spec fn alg(&self) -> int;
    spec fn key(&self) -> Seq<u8>;
    spec fn fed(&self) -> Seq<u8>;
    spec fn done(&self) -> bool;
    spec fn out_len(&self) -> nat;

    fn input(&mut self, data: &[u8])
        requires old(self).wf(), !old(self).done()
        ensures final(self).wf(), !final(self).done(), final(self).fed() == old(self).fed() + data@,
                final(self).key() == old(self).key(), final(self).alg() == old(self).alg(), final(self).out_len() == old(self).out_len();

    fn reset(&mut self)
        requires old(self).wf()
        ensures final(self).wf(), !final(self).done(), final(self).fed() == Seq::<u8>::empty(),
                final(self).key() == old(self).key(), final(self).alg() == old(self).alg(), final(self).out_len() == old(self).out_len();

    // C09: whatever `done` is, the bytes are the MAC of what was fed since the last reset
    fn raw_result(&mut self, output: &mut [u8])
        requires old(self).wf(), old(output).len() >= old(self).out_len()
        ensures final(self).wf(), final(self).done(),
                final(output)@.subrange(0, old(self).out_len() as int) == mac_fn(old(self).alg(), old(self).key(), old(self).fed()),
                final(self).fed() == old(self).fed(), final(self).key() == old(self).key(),
                final(self).alg() == old(self).alg(), final(self).out_len() == old(self).out_len(),
                final(output).len() == old(output).len();

    fn output_bytes(&self) -> (r: usize)
        requires self.wf()
        ensures r == self.out_len();
}

// A toy implementation with the same flag structure as Poly1305 (tag cached in `h`)
pub struct Toy { pub k: [u8; 4], pub acc: Ghost<Seq<u8>>, pub h: [u8; 4], pub finalized: bool }

pub uninterp spec fn toy_tag(k: Seq<u8>, m: Seq<u8>) -> Seq<u8>;
pub broadcast proof fn toy_len(k: Seq<u8>, m: Seq<u8>) ensures #[trigger] toy_tag(k, m).len() == 4 { admit(); }

impl Toy {
    #[verifier::external_body]
    fn finish(&mut self)
        ensures final(self).h@ == toy_tag(old(self).k@, old(self).acc@), final(self).k == old(self).k, final(self).acc == old(self).acc,
                final(self).finalized == old(self).finalized
    { unimplemented!() }
}

impl Mac for Toy {
    open spec fn wf(&self) -> bool { self.finalized ==> self.h@ == toy_tag(self.k@, self.acc@) }
    open spec fn alg(&self) -> int { 7 }
    open spec fn key(&self) -> Seq<u8> { self.k@ }
    open spec fn fed(&self) -> Seq<u8> { self.acc@ }
    open spec fn done(&self) -> bool { self.finalized }
    open spec fn out_len(&self) -> nat { 4 }

    fn input(&mut self, data: &[u8]) {
        assert(!self.finalized);
        proof { self.acc@ = self.acc@ + data@; }
    }
    fn reset(&mut self) {
        self.finalized = false;
        proof { self.acc@ = Seq::empty(); }
    }
    fn raw_result(&mut self, output: &mut [u8]) {
        broadcast use toy_len;
        assume(mac_fn(7, self.k@, self.acc@) == toy_tag(self.k@, self.acc@));
        if !self.finalized {
            self.finish();
            self.finalized = true;      // <- the line whose absence is D2
        }
        output[0] = self.h[0]; output[1] = self.h[1]; output[2] = self.h[2]; output[3] = self.h[3];
        proof { assert(output@.subrange(0, 4) =~= self.h@); }
    }
    fn output_bytes(&self) -> (r: usize) { 4 }
}
} // verus!
fn main() {}
