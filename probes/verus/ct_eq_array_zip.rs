use vstd::prelude::*;
verus! {

proof fn lemma_or_xor_zero(a: u64, x: u8, y: u8)
    ensures (a | ((x as u64) ^ (y as u64))) == 0 <==> (a == 0 && x == y)
{
    assert((a | ((x as u64) ^ (y as u64))) == 0 <==> (a == 0 && x == y)) by (bit_vector);
}

pub fn ct_eq_arr<const N: usize>(s: &[u8; N], b: &[u8; N]) -> (r: u64)
    ensures r == 0 <==> s@ == b@
{
        let mut acc = 0u64;
        for (x, y) in it: s.iter().zip(b.iter())
            invariant acc == 0 <==> (forall|i: int| 0 <= i < it.index@ ==> s[i] == b[i])
        {
            proof { lemma_or_xor_zero(acc, *x, *y); }
            acc |= (*x as u64) ^ (*y as u64);
        }
        assert(s@ =~= b@ <==> (forall|i: int| 0 <= i < N ==> s[i] == b[i]));
        acc
}

} // verus!
fn main() {}
