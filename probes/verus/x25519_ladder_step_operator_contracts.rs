use vstd::prelude::*;
use core::ops::{Add, Mul, Sub};
verus! {

pub struct Fe(pub [u64; 5]);

pub open spec fn P() -> int { 0x8000000000000int * (0x40000000000000000000000000int * 0x40000000000000000000000000int) - 19 }
pub uninterp spec fn val(f: &Fe) -> int;        // limb value (abstract in this probe)
pub uninterp spec fn bnd(f: &Fe, b: int) -> bool; // limb bound (abstract in this probe)
pub open spec fn fv(f: &Fe) -> int { val(f) % P() }   // field value

pub open spec fn fadd(a: int, b: int) -> int { (a + b) % P() }
pub open spec fn fsub(a: int, b: int) -> int { (a - b) % P() }
pub open spec fn fmul(a: int, b: int) -> int { (a * b) % P() }

impl<'a> vstd::std_specs::ops::AddSpecImpl<&'a Fe> for &'a Fe {
    open spec fn obeys_add_spec() -> bool { false }
    open spec fn add_req(self, rhs: &'a Fe) -> bool { bnd(self, 53) && bnd(rhs, 53) }
    open spec fn add_spec(self, rhs: &'a Fe) -> Fe { arbitrary() }
}
impl<'a> vstd::std_specs::ops::SubSpecImpl<&'a Fe> for &'a Fe {
    open spec fn obeys_sub_spec() -> bool { false }
    open spec fn sub_req(self, rhs: &'a Fe) -> bool { bnd(self, 53) && bnd(rhs, 53) }
    open spec fn sub_spec(self, rhs: &'a Fe) -> Fe { arbitrary() }
}
impl<'a> vstd::std_specs::ops::MulSpecImpl<&'a Fe> for &'a Fe {
    open spec fn obeys_mul_spec() -> bool { false }
    open spec fn mul_req(self, rhs: &'a Fe) -> bool { bnd(self, 53) && bnd(rhs, 53) }
    open spec fn mul_spec(self, rhs: &'a Fe) -> Fe { arbitrary() }
}

impl Add for &Fe {
    type Output = Fe;
    #[verifier::external_body]
    fn add(self, rhs: &Fe) -> (r: Fe)
        ensures fv(&r) == fadd(fv(self), fv(rhs)), bnd(&r, 52)
    { unimplemented!() }
}
impl Sub for &Fe {
    type Output = Fe;
    #[verifier::external_body]
    fn sub(self, rhs: &Fe) -> (r: Fe)
        ensures fv(&r) == fsub(fv(self), fv(rhs)), bnd(&r, 52)
    { unimplemented!() }
}
impl Mul for &Fe {
    type Output = Fe;
    #[verifier::external_body]
    fn mul(self, rhs: &Fe) -> (r: Fe)
        ensures fv(&r) == fmul(fv(self), fv(rhs)), bnd(&r, 52)
    { unimplemented!() }
}
pub broadcast proof fn bnd_mono(f: &Fe) ensures #[trigger] bnd(f, 52) ==> bnd(f, 53) { admit(); }

impl Fe {
    #[verifier::external_body]
    pub fn square(&self) -> (r: Fe)
        requires bnd(self, 53)
        ensures fv(&r) == fmul(fv(self), fv(self)), bnd(&r, 52)
    { unimplemented!() }
    #[verifier::external_body]
    pub fn mul_small_121666(&self) -> (r: Fe)
        requires bnd(self, 53)
        ensures fv(&r) == fmul(fv(self), 121666), bnd(&r, 52)
    { unimplemented!() }
}

// RFC 7748 ladder step on field values
pub struct St { pub x2: int, pub z2: int, pub x3: int, pub z3: int }
pub open spec fn step(x1: int, s: St) -> St {
    let a = fadd(s.x2, s.z2);
    let aa = fmul(a, a);
    let b = fsub(s.x2, s.z2);
    let bb = fmul(b, b);
    let e = fsub(aa, bb);
    let c = fadd(s.x3, s.z3);
    let d = fsub(s.x3, s.z3);
    let da = fmul(d, a);
    let cb = fmul(c, b);
    let t0 = fadd(da, cb);
    let t1 = fsub(da, cb);
    St {
        x3: fmul(t0, t0),
        z3: fmul(x1, fmul(t1, t1)),
        x2: fmul(aa, bb),
        z2: fmul(e, fadd(bb, fmul(e, 121666))),
    }
}

// body = the ladder step statements of /repo curve25519() between the swaps
pub fn ladder_step(x1: &Fe, x2: Fe, z2: Fe, x3: Fe, z3: Fe) -> (r: (Fe, Fe, Fe, Fe))
    requires bnd(x1, 52), bnd(&x2, 52), bnd(&z2, 52), bnd(&x3, 52), bnd(&z3, 52)
    ensures ({
        let s = step(fv(x1), St { x2: fv(&x2), z2: fv(&z2), x3: fv(&x3), z3: fv(&z3) });
        fv(&r.0) == s.x2 && fv(&r.1) == s.z2 && fv(&r.2) == s.x3 && fv(&r.3) == s.z3
        && bnd(&r.0, 52) && bnd(&r.1, 52) && bnd(&r.2, 52) && bnd(&r.3, 52)
    })
{
    broadcast use bnd_mono;
        let d = (&x3).sub(&z3);
        let b = (&x2).sub(&z2);
        let a = (&x2).add(&z2);
        let c = (&x3).add(&z3);
        let da = (&d).mul(&a);
        let cb = (&c).mul(&b);
        let bb = b.square();
        let aa = a.square();
        let t0 = (&da).add(&cb);
        let t1 = (&da).sub(&cb);
        let x4 = (&aa).mul(&bb);
        let e = (&aa).sub(&bb);
        let t2 = t1.square();
        let t3 = e.mul_small_121666();
        let x5 = t0.square();
        let t4 = (&bb).add(&t3);
        let z5 = x1.mul(&t2);
        let z4 = (&e).mul(&t4);
    proof {
    }
    (x4, z4, x5, z5)
}
} // verus!
fn main() {}
