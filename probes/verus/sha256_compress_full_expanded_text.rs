#![feature(panic_internals)]
use vstd::prelude::*;
use vstd::slice::SliceIndexSpec;
verus! {

pub assume_specification<T, I: core::slice::SliceIndex<[T]>> [<[T]>::get_unchecked::<I>] (s: &[T], i: I) -> (r: &<I as core::slice::SliceIndex<[T]>>::Output)
    requires i.in_bounds(s)
    ensures i.index_postcondition(s, r);
pub assume_specification<T, I: core::slice::SliceIndex<[T]>> [<[T]>::get_unchecked_mut::<I>] (s: &mut [T], i: I) -> (r: &mut <I as core::slice::SliceIndex<[T]>>::Output)
    requires i.in_bounds(old(s))
    ensures i.index_mut_postcondition(old(s), final(s), r, final(r));
pub open spec fn rotr32(x: u32, n: u32) -> u32 { (x >> n) | (x << ((32 - n) as u32)) }
pub assume_specification [u32::rotate_right] (x: u32, n: u32) -> (r: u32)
    requires 0 < n < 32
    ensures r == rotr32(x, n);

// ---- FIPS 180-4 ----
pub open spec fn add32(a: u32, b: u32) -> u32 { a.wrapping_add(b) }
pub open spec fn ssig0(x: u32) -> u32 { rotr32(x, 7) ^ rotr32(x, 18) ^ (x >> 3) }
pub open spec fn ssig1(x: u32) -> u32 { rotr32(x, 17) ^ rotr32(x, 19) ^ (x >> 10) }
pub open spec fn bsig0(x: u32) -> u32 { rotr32(x, 2) ^ rotr32(x, 13) ^ rotr32(x, 22) }
pub open spec fn bsig1(x: u32) -> u32 { rotr32(x, 6) ^ rotr32(x, 11) ^ rotr32(x, 25) }
pub open spec fn ch(x: u32, y: u32, z: u32) -> u32 { (x & y) ^ (!x & z) }
pub open spec fn maj(x: u32, y: u32, z: u32) -> u32 { (x & y) ^ (x & z) ^ (y & z) }
pub open spec fn sched_w(m: Seq<u32>, t: int) -> u32
   decreases t
{
    if t < 0 { 0 } else if t < 16 { m[t] } else {
        add32(add32(add32(ssig1(sched_w(m, t-2)), sched_w(m, t-7)), ssig0(sched_w(m, t-15))), sched_w(m, t-16))
    }
}
pub uninterp spec fn kconst(t: int) -> u32;     // FIPS K_t (probe: tied to K32 by lemma_k)
pub open spec fn round(s: Seq<u32>, m: Seq<u32>, t: int) -> Seq<u32> {
    let t1 = add32(add32(add32(add32(s[7], bsig1(s[4])), ch(s[4], s[5], s[6])), kconst(t)), sched_w(m, t));
    let t2 = add32(bsig0(s[0]), maj(s[0], s[1], s[2]));
    seq![add32(t1, t2), s[0], s[1], s[2], add32(s[3], t1), s[4], s[5], s[6]]
}
pub open spec fn rounds(s: Seq<u32>, m: Seq<u32>, n: int) -> Seq<u32>
    decreases n
{
    if n <= 0 { s } else { round(rounds(s, m, n - 1), m, n - 1) }
}
pub open spec fn sha256_compress(h: Seq<u32>, m: Seq<u32>) -> Seq<u32> {
    let r = rounds(h, m, 64);
    seq![add32(h[0], r[0]), add32(h[1], r[1]), add32(h[2], r[2]), add32(h[3], r[3]),
         add32(h[4], r[4]), add32(h[5], r[5]), add32(h[6], r[6]), add32(h[7], r[7])]
}
pub uninterp spec fn be_words(b: Seq<u8>) -> Seq<u32>;
pub broadcast proof fn be_words_len(b: Seq<u8>) ensures #[trigger] be_words(b).len() == 16 { admit(); }

pub proof fn lemma_ch_maj()
    ensures forall|e: u32, f: u32, g: u32| #[trigger] ch(e, f, g) == g ^ (e & (f ^ g)),
            forall|a: u32, b: u32, c: u32| #[trigger] maj(a, b, c) == (a & b) | (c & (a | b)),
{
    assert forall|e: u32, f: u32, g: u32| #[trigger] ch(e, f, g) == g ^ (e & (f ^ g)) by {
        assert((e & f) ^ (!e & g) == g ^ (e & (f ^ g))) by (bit_vector);
    }
    assert forall|a: u32, b: u32, c: u32| #[trigger] maj(a, b, c) == (a & b) | (c & (a | b)) by {
        assert((a & b) ^ (a & c) ^ (b & c) == (a & b) | (c & (a | b))) by (bit_vector);
    }
}

pub const K32: [u32; 64] = [
    0x428a2f98, 0x71374491, 0xb5c0fbcf, 0xe9b5dba5, 0x3956c25b, 0x59f111f1, 0x923f82a4, 0xab1c5ed5,
    0xd807aa98, 0x12835b01, 0x243185be, 0x550c7dc3, 0x72be5d74, 0x80deb1fe, 0x9bdc06a7, 0xc19bf174,
    0xe49b69c1, 0xefbe4786, 0x0fc19dc6, 0x240ca1cc, 0x2de92c6f, 0x4a7484aa, 0x5cb0a9dc, 0x76f988da,
    0x983e5152, 0xa831c66d, 0xb00327c8, 0xbf597fc7, 0xc6e00bf3, 0xd5a79147, 0x06ca6351, 0x14292967,
    0x27b70a85, 0x2e1b2138, 0x4d2c6dfc, 0x53380d13, 0x650a7354, 0x766a0abb, 0x81c2c92e, 0x92722c85,
    0xa2bfe8a1, 0xa81a664b, 0xc24b8b70, 0xc76c51a3, 0xd192e819, 0xd6990624, 0xf40e3585, 0x106aa070,
    0x19a4c116, 0x1e376c08, 0x2748774c, 0x34b0bcb5, 0x391c0cb3, 0x4ed8aa4a, 0x5b9cca4f, 0x682e6ff3,
    0x748f82ee, 0x78a5636f, 0x84c87814, 0x8cc70208, 0x90befffa, 0xa4506ceb, 0xbef9a3f7, 0xc67178f2,
];
pub proof fn lemma_k() ensures forall|t: int| 0 <= t < 64 ==> #[trigger] K32[t] == kconst(t) { admit(); }

#[verifier::external_body]
fn read_u32v_be(dst: &mut [u32], input: &[u8])
    requires old(dst).len() * 4 == input.len()
    ensures final(dst).len() == old(dst).len(), input.len() == 64 ==> final(dst)@ == be_words(input@)
{ unimplemented!() }

fn e0(x: u32) -> (r: u32) ensures r == bsig0(x) { x.rotate_right(2) ^ x.rotate_right(13) ^ x.rotate_right(22) }
fn e1(x: u32) -> (r: u32) ensures r == bsig1(x) { x.rotate_right(6) ^ x.rotate_right(11) ^ x.rotate_right(25) }
fn s0(x: u32) -> (r: u32) ensures r == ssig0(x) { x.rotate_right(7) ^ x.rotate_right(18) ^ (x >> 3) }
fn s1(x: u32) -> (r: u32) ensures r == ssig1(x) { x.rotate_right(17) ^ x.rotate_right(19) ^ (x >> 10) }

fn digest_block_u32(state: &mut [u32; 8], buf: &[u8])
    requires buf.len() == 64
    ensures final(state)@ == sha256_compress(old(state)@, be_words(buf@))
{
                    let mut w = [0u32; 64];
                    read_u32v_be(&mut w[0..16], buf);
                    let ghost m = be_words(buf@);
                    let ghost h0 = state@;
                    assert(forall|t: int| 0 <= t < 16 ==> w[t] == sched_w(m, t));
                    unsafe {
                        for i in 16..64
                            invariant 16 <= i <= 64, m.len() == 16, forall|t: int| 0 <= t < i ==> w[t] == sched_w(m, t)
                        {
                            *w.get_unchecked_mut(i) =
                                s1(*w.get_unchecked(i -
                                                            2)).wrapping_add(*w.get_unchecked(i -
                                                        7)).wrapping_add(s0(*w.get_unchecked(i -
                                                        15))).wrapping_add(*w.get_unchecked(i - 16));
                            proof {
                                let t = i as int;
                                assert(sched_w(m, t) == add32(add32(add32(ssig1(sched_w(m, t-2)), sched_w(m, t-7)), ssig0(sched_w(m, t-15))), sched_w(m, t-16)));
                                assert(w[t-2] == sched_w(m, t-2)); assert(w[t-7] == sched_w(m, t-7));
                                assert(w[t-15] == sched_w(m, t-15)); assert(w[t-16] == sched_w(m, t-16));
                                assert(w[t] == sched_w(m, t));
                                assert(forall|u: int| 0 <= u < i ==> w[u] == sched_w(m, u));
                            }
                        }
                    }
                    let mut a = state[0];
                    let mut b = state[1];
                    let mut c = state[2];
                    let mut d = state[3];
                    let mut e = state[4];
                    let mut f = state[5];
                    let mut g = state[6];
                    let mut h = state[7];
                    
                    let mut i = 0;
                    while i != 64
                        invariant i <= 64, i % 8 == 0, m.len() == 16, h0.len() == 8,
                            forall|t: int| 0 <= t < 64 ==> w[t] == sched_w(m, t),
                            seq![a, b, c, d, e, f, g, h] == rounds(h0, m, i as int),
                        decreases 64 - i
                    {
                        proof { reveal_with_fuel(rounds, 2); lemma_ch_maj(); lemma_k(); }
                        let t1 =
                            unsafe {
                                h.wrapping_add(e1(e)).wrapping_add(g ^
                                                (e &
                                                        (f ^
                                                                g))).wrapping_add(*K32.get_unchecked(i +
                                                    0)).wrapping_add(*w.get_unchecked(i + 0))
                            };
                        let t2 = e0(a).wrapping_add((a & b) | (c & (a | b)));
                        d = d.wrapping_add(t1);
                        h = t1.wrapping_add(t2);
                        proof { assert(seq![h, a, b, c, d, e, f, g] =~= round(rounds(h0, m, i as int + 0), m, i as int + 0)); assert(seq![h, a, b, c, d, e, f, g] =~= rounds(h0, m, i as int + 1)); }
                        let t1 =
                            unsafe {
                                g.wrapping_add(e1(d)).wrapping_add(f ^
                                                (d &
                                                        (e ^
                                                                f))).wrapping_add(*K32.get_unchecked(i +
                                                    1)).wrapping_add(*w.get_unchecked(i + 1))
                            };
                        let t2 = e0(h).wrapping_add((h & a) | (b & (h | a)));
                        c = c.wrapping_add(t1);
                        g = t1.wrapping_add(t2);
                        proof { assert(seq![g, h, a, b, c, d, e, f] =~= round(rounds(h0, m, i as int + 1), m, i as int + 1)); assert(seq![g, h, a, b, c, d, e, f] =~= rounds(h0, m, i as int + 2)); }
                        let t1 =
                            unsafe {
                                f.wrapping_add(e1(c)).wrapping_add(e ^
                                                (c &
                                                        (d ^
                                                                e))).wrapping_add(*K32.get_unchecked(i +
                                                    2)).wrapping_add(*w.get_unchecked(i + 2))
                            };
                        let t2 = e0(g).wrapping_add((g & h) | (a & (g | h)));
                        b = b.wrapping_add(t1);
                        f = t1.wrapping_add(t2);
                        proof { assert(seq![f, g, h, a, b, c, d, e] =~= round(rounds(h0, m, i as int + 2), m, i as int + 2)); assert(seq![f, g, h, a, b, c, d, e] =~= rounds(h0, m, i as int + 3)); }
                        let t1 =
                            unsafe {
                                e.wrapping_add(e1(b)).wrapping_add(d ^
                                                (b &
                                                        (c ^
                                                                d))).wrapping_add(*K32.get_unchecked(i +
                                                    3)).wrapping_add(*w.get_unchecked(i + 3))
                            };
                        let t2 = e0(f).wrapping_add((f & g) | (h & (f | g)));
                        a = a.wrapping_add(t1);
                        e = t1.wrapping_add(t2);
                        proof { assert(seq![e, f, g, h, a, b, c, d] =~= round(rounds(h0, m, i as int + 3), m, i as int + 3)); assert(seq![e, f, g, h, a, b, c, d] =~= rounds(h0, m, i as int + 4)); }
                        let t1 =
                            unsafe {
                                d.wrapping_add(e1(a)).wrapping_add(c ^
                                                (a &
                                                        (b ^
                                                                c))).wrapping_add(*K32.get_unchecked(i +
                                                    4)).wrapping_add(*w.get_unchecked(i + 4))
                            };
                        let t2 = e0(e).wrapping_add((e & f) | (g & (e | f)));
                        h = h.wrapping_add(t1);
                        d = t1.wrapping_add(t2);
                        proof { assert(seq![d, e, f, g, h, a, b, c] =~= round(rounds(h0, m, i as int + 4), m, i as int + 4)); assert(seq![d, e, f, g, h, a, b, c] =~= rounds(h0, m, i as int + 5)); }
                        let t1 =
                            unsafe {
                                c.wrapping_add(e1(h)).wrapping_add(b ^
                                                (h &
                                                        (a ^
                                                                b))).wrapping_add(*K32.get_unchecked(i +
                                                    5)).wrapping_add(*w.get_unchecked(i + 5))
                            };
                        let t2 = e0(d).wrapping_add((d & e) | (f & (d | e)));
                        g = g.wrapping_add(t1);
                        c = t1.wrapping_add(t2);
                        proof { assert(seq![c, d, e, f, g, h, a, b] =~= round(rounds(h0, m, i as int + 5), m, i as int + 5)); assert(seq![c, d, e, f, g, h, a, b] =~= rounds(h0, m, i as int + 6)); }
                        let t1 =
                            unsafe {
                                b.wrapping_add(e1(g)).wrapping_add(a ^
                                                (g &
                                                        (h ^
                                                                a))).wrapping_add(*K32.get_unchecked(i +
                                                    6)).wrapping_add(*w.get_unchecked(i + 6))
                            };
                        let t2 = e0(c).wrapping_add((c & d) | (e & (c | d)));
                        f = f.wrapping_add(t1);
                        b = t1.wrapping_add(t2);
                        proof { assert(seq![b, c, d, e, f, g, h, a] =~= round(rounds(h0, m, i as int + 6), m, i as int + 6)); assert(seq![b, c, d, e, f, g, h, a] =~= rounds(h0, m, i as int + 7)); }
                        let t1 =
                            unsafe {
                                a.wrapping_add(e1(f)).wrapping_add(h ^
                                                (f &
                                                        (g ^
                                                                h))).wrapping_add(*K32.get_unchecked(i +
                                                    7)).wrapping_add(*w.get_unchecked(i + 7))
                            };
                        let t2 = e0(b).wrapping_add((b & c) | (d & (b | c)));
                        e = e.wrapping_add(t1);
                        a = t1.wrapping_add(t2);
                        proof { assert(seq![a, b, c, d, e, f, g, h] =~= round(rounds(h0, m, i as int + 7), m, i as int + 7)); assert(seq![a, b, c, d, e, f, g, h] =~= rounds(h0, m, i as int + 8)); }
                        i += 8;
                    }
                    state[0] = state[0].wrapping_add(a);
                    state[1] = state[1].wrapping_add(b);
                    state[2] = state[2].wrapping_add(c);
                    state[3] = state[3].wrapping_add(d);
                    state[4] = state[4].wrapping_add(e);
                    state[5] = state[5].wrapping_add(f);
                    state[6] = state[6].wrapping_add(g);
                    state[7] = state[7].wrapping_add(h);
                }
} // verus!
fn main() {}
