use vstd::prelude::*;
use vstd::slice::SliceIndexSpec;
verus! {

pub assume_specification<T, I: core::slice::SliceIndex<[T]>> [<[T]>::get_unchecked::<I>] (s: &[T], i: I) -> (r: &<I as core::slice::SliceIndex<[T]>>::Output)
    requires i.in_bounds(s)
    ensures i.index_postcondition(s, r);

pub assume_specification<T, I: core::slice::SliceIndex<[T]>> [<[T]>::get_unchecked_mut::<I>] (s: &mut [T], i: I) -> (r: &mut <I as core::slice::SliceIndex<[T]>>::Output)
    requires i.in_bounds(old(s))
    ensures i.index_mut_postcondition(old(s), final(s), r, final(r));

pub open spec fn rotr32(x: u32, n: u32) -> u32 { (x >> n) | (x << ((32 - n) as u32)) }
pub assume_specification [u32::rotate_right] (x: u32, n: u32) -> (r: u32)
    requires 0 < n < 32
    ensures r == rotr32(x, n);

pub open spec fn ssig0(x: u32) -> u32 { rotr32(x, 7) ^ rotr32(x, 18) ^ (x >> 3) }
pub open spec fn ssig1(x: u32) -> u32 { rotr32(x, 17) ^ rotr32(x, 19) ^ (x >> 10) }
pub open spec fn add32(a: u32, b: u32) -> u32 { ((a as int + b as int) % 0x1_0000_0000) as u32 }

pub open spec fn sched_w(m: Seq<u32>, t: int) -> u32 
   decreases t
{
    if t < 0 { 0 } else if t < 16 { m[t] } else {
        add32(add32(add32(ssig1(sched_w(m, t-2)), sched_w(m, t-7)), ssig0(sched_w(m, t-15))), sched_w(m, t-16))
    }
}

#[inline(always)]
fn s0(x: u32) -> (r: u32) ensures r == ssig0(x) {
    x.rotate_right(7) ^ x.rotate_right(18) ^ (x >> 3)
}
#[inline(always)]
fn s1(x: u32) -> (r: u32) ensures r == ssig1(x) {
    x.rotate_right(17) ^ x.rotate_right(19) ^ (x >> 10)
}

fn sched(w: &mut [u32; 64]) 
    ensures forall|t: int| 0 <= t < 64 ==> final(w)[t] == sched_w(old(w)@.subrange(0, 16), t)
{
    let ghost m = w@.subrange(0, 16);
    unsafe {
        for i in 16..64 
            invariant 16 <= i <= 64, m.len() == 16, forall|t: int| 0 <= t < i ==> w[t] == sched_w(m, t)
        {
            *w.get_unchecked_mut(i) = s1(*w.get_unchecked(i - 2))
                .wrapping_add(*w.get_unchecked(i - 7))
                .wrapping_add(s0(*w.get_unchecked(i - 15)))
                .wrapping_add(*w.get_unchecked(i - 16));
            proof {
                let t = i as int;
                assert(sched_w(m, t) == add32(add32(add32(ssig1(sched_w(m, t-2)), sched_w(m, t-7)), ssig0(sched_w(m, t-15))), sched_w(m, t-16)));
                assert(w[t-2] == sched_w(m, t-2));
                assert(w[t-7] == sched_w(m, t-7));
                assert(w[t-15] == sched_w(m, t-15));
                assert(w[t-16] == sched_w(m, t-16));
                assert(w[i as int] == sched_w(m, i as int));
                assert(forall|t: int| 0 <= t < i ==> w[t] == sched_w(m, t));
            }
        }
    }
}
} // verus!
fn main() {}
