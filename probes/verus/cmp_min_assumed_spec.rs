use vstd::prelude::*;
use core::cmp;
use vstd::std_specs::cmp::OrdSpec;
verus! {
pub assume_specification<T: core::cmp::Ord + core::marker::Destruct> [core::cmp::min::<T>] (a: T, b: T) -> (r: T)
    ensures (a.cmp_spec(&b) == core::cmp::Ordering::Greater ==> r == b), (a.cmp_spec(&b) != core::cmp::Ordering::Greater ==> r == a);

#[verifier::external_body]
pub fn xor_keystream_mut(buf: &mut [u8], keystream: &[u8])
    requires old(buf).len() <= keystream.len()
    ensures final(buf).len() == old(buf).len(),
            forall|i: int| 0 <= i < old(buf).len() ==> final(buf)[i] == old(buf)[i] ^ keystream[i]
{
    unimplemented!()
}

pub struct ChaCha {
    pub ctr: u32,
    pub output: [u8; 64],
    pub offset: usize,
}

pub uninterp spec fn block(ctr: u32) -> Seq<u8>;

impl ChaCha {
    #[verifier::external_body]
    fn update(&mut self)
        ensures final(self).output@ == block(old(self).ctr),
                final(self).ctr == old(self).ctr.wrapping_add(1),
                final(self).offset == 0
    { unimplemented!() }

    pub fn process_mut(&mut self, data: &mut [u8])
        requires old(self).offset <= 64
    {
        let len = data.len();
        let mut i = 0;
        while i < len 
            invariant self.offset <= 64, i <= len, data.len() == len
            decreases len - i
        {
            // If there is no keystream available in the output buffer,
            // generate the next block.
            if self.offset == 64 {
                self.update();
            }

            // Process the min(available keystream, remaining input length).
            let count = cmp::min(64 - self.offset, len - i);
            xor_keystream_mut(&mut data[i..i + count], &self.output[self.offset..]);
            i += count;
            self.offset += count;
        }
    }
}
} // verus!
fn main() {}
