use vstd::prelude::*;
verus! {
fn lo(t: u128) -> (r: u64)
    ensures r == t % 0x1_0000_0000_0000_0000
{
    proof { assert((t as u64) == t % 0x1_0000_0000_0000_0000) by (bit_vector); }
    t as u64
}
fn lo3(t: u128) -> (r: u64)
    ensures r == (t % 0x8000000000000) 
{
    proof { assert(((t as u64) & 0x7ffffffffffff) == (t % 0x8000000000000)) by (bit_vector); }
    (t as u64) & 0x7ffffffffffff
}
} // verus!
fn main() {}
