use vstd::prelude::*;
verus! {
pub fn ladder_bits(e: &[u8; 32]) -> (r: u64)
{
    let mut acc = 0u64;
    // pos starts at 254 and goes down to 0
    for pos in (0usize..255).rev() {
        let b = ((e[pos / 8] >> (pos & 7)) & 1);
        acc = acc ^ (b as u64);
    }
    acc
}
} // verus!
fn main() {}
