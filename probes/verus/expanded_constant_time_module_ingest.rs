#![feature(panic_internals)]
use vstd::prelude::*;
pub mod constant_time {
use vstd::prelude::*;
verus! {

































    pub struct Choice(pub(crate) u64);
    #[automatically_derived]
    #[doc(hidden)]
    unsafe impl ::core::clone::TrivialClone for Choice { }
    #[automatically_derived]
    impl ::core::clone::Clone for Choice {
        #[inline]
        fn clone(&self) -> Choice {
            let _: ::core::clone::AssertParamIsClone<u64>;
            *self
        }
    }
    #[automatically_derived]
    impl ::core::marker::Copy for Choice { }





    pub struct CtOption<T> {
        present: Choice,
        t: T,
    }
    #[automatically_derived]
    impl<T: ::core::clone::Clone> ::core::clone::Clone for CtOption<T> {
        #[inline]
        fn clone(&self) -> CtOption<T> {
            CtOption {
                present: ::core::clone::Clone::clone(&self.present),
                t: ::core::clone::Clone::clone(&self.t),
            }
        }
    }
    impl Choice {

        pub fn is_true(self) -> bool { self.0 == 1 }

        pub fn is_false(self) -> bool { self.0 == 0 }



        pub fn negate(self) -> Self { Choice(1 ^ self.0) }
    }
    impl From<Choice> for bool {
        fn from(c: Choice) -> bool { c.is_true() }
    }
    impl core::ops::BitAnd for Choice {
        type Output = Choice;
        fn bitand(self, b: Choice) -> Choice { Choice(self.0 & b.0) }
    }
    impl core::ops::BitOr for Choice {
        type Output = Choice;
        fn bitor(self, b: Choice) -> Choice { Choice(self.0 | b.0) }
    }
    impl core::ops::BitXor for Choice {
        type Output = Choice;
        fn bitxor(self, b: Choice) -> Choice { Choice(self.0 ^ b.0) }
    }
    impl<T> From<(Choice, T)> for CtOption<T> {
        fn from(c: (Choice, T)) -> CtOption<T> {
            CtOption { present: c.0, t: c.1 }
        }
    }
    impl<T> CtOption<T> {

        pub fn into_option(self) -> Option<T> {
            if self.present.is_true() { Some(self.t) } else { None }
        }
    }




    pub trait CtZero {

        fn ct_zero(self)
        -> Choice;



        fn ct_nonzero(self)
        -> Choice;
    }



    pub trait CtGreater: Sized {


        fn ct_gt(a: Self, b: Self)
        -> Choice;




        fn ct_le(a: Self, b: Self) -> Choice { Self::ct_gt(b, a) }
    }



    pub trait CtLesser: Sized {


        fn ct_lt(a: Self, b: Self)
        -> Choice;




        fn ct_ge(a: Self, b: Self) -> Choice { Self::ct_lt(b, a) }
    }



    pub trait CtEqual<Rhs = Self> {

        fn ct_eq(self, b: Rhs)
        -> Choice;



        fn ct_ne(self, b: Rhs)
        -> Choice;
    }
    impl CtZero for u64 {
        fn ct_zero(self) -> Choice {
            Choice(1 ^ ((self | self.wrapping_neg()) >> 63))
        }
        fn ct_nonzero(self) -> Choice {
            Choice((self | self.wrapping_neg()) >> 63)
        }
    }
    impl CtEqual for u64 {
        fn ct_eq(self, b: Self) -> Choice { Self::ct_zero(self ^ b) }
        fn ct_ne(self, b: Self) -> Choice { Self::ct_nonzero(self ^ b) }
    }
    impl CtZero for u8 {
        fn ct_zero(self) -> Choice { (self as u64).ct_zero() }
        fn ct_nonzero(self) -> Choice { (self as u64).ct_nonzero() }
    }
    impl CtEqual for u8 {
        fn ct_eq(self, b: Self) -> Choice { (self as u64).ct_eq(b as u64) }
        fn ct_ne(self, b: Self) -> Choice { (self as u64).ct_ne(b as u64) }
    }
    impl CtLesser for u64 {
        fn ct_lt(a: Self, b: Self) -> Choice {
            Choice((a ^ ((a ^ b) | ((a.wrapping_sub(b)) ^ b))) >> 63)
        }
    }
    impl CtGreater for u64 {
        fn ct_gt(a: Self, b: Self) -> Choice { Self::ct_lt(b, a) }
    }
    impl<const N : usize> CtZero for &[u8; N] {
        fn ct_zero(self) -> Choice {
            let mut acc = 0u64;
            for b in self.iter() { acc |= *b as u64 }
            acc.ct_zero()
        }
        fn ct_nonzero(self) -> Choice {
            let mut acc = 0u64;
            for b in self.iter() { acc |= *b as u64 }
            acc.ct_nonzero()
        }
    }
    impl<const N : usize> CtZero for &[u64; N] {
        fn ct_zero(self) -> Choice {
            let mut acc = 0u64;
            for b in self.iter() { acc |= *b }
            acc.ct_zero()
        }
        fn ct_nonzero(self) -> Choice {
            let mut acc = 0u64;
            for b in self.iter() { acc |= *b }
            acc.ct_nonzero()
        }
    }
    impl CtZero for &[u64] {
        fn ct_zero(self) -> Choice {
            let mut acc = 0u64;
            for b in self.iter() { acc |= *b }
            acc.ct_zero()
        }
        fn ct_nonzero(self) -> Choice {
            let mut acc = 0u64;
            for b in self.iter() { acc |= *b }
            acc.ct_nonzero()
        }
    }
    impl<const N : usize> CtEqual for &[u8; N] {
        fn ct_eq(self, b: Self) -> Choice {
            let mut acc = 0u64;
            for (x, y) in self.iter().zip(b.iter()) {
                acc |= (*x as u64) ^ (*y as u64);
            }
            acc.ct_zero()
        }
        fn ct_ne(self, b: Self) -> Choice { self.ct_eq(b).negate() }
    }
    impl<const N : usize> CtEqual for &[u64; N] {
        fn ct_eq(self, b: Self) -> Choice {
            let mut acc = 0u64;
            for (x, y) in self.iter().zip(b.iter()) { acc |= *x ^ *y; }
            acc.ct_zero()
        }
        fn ct_ne(self, b: Self) -> Choice { self.ct_eq(b).negate() }
    }
    impl CtEqual for &[u8] {
        fn ct_eq(self, b: &[u8]) -> Choice {
            match (&self.len(), &b.len()) {
                (left_val, right_val) => {
                    if !(*left_val == *right_val) {
                        let kind = ::core::panicking::AssertKind::Eq;
                        ::core::panicking::assert_failed(kind, &*left_val,
                            &*right_val, ::core::option::Option::None);
                    }
                }
            };
            let mut acc = 0u64;
            for (x, y) in self.iter().zip(b.iter()) {
                acc |= (*x as u64) ^ (*y as u64);
            }
            acc.ct_zero()
        }
        fn ct_ne(self, b: Self) -> Choice { self.ct_eq(b).negate() }
    }
    impl CtEqual for &[u64] {
        fn ct_eq(self, b: Self) -> Choice {
            match (&self.len(), &b.len()) {
                (left_val, right_val) => {
                    if !(*left_val == *right_val) {
                        let kind = ::core::panicking::AssertKind::Eq;
                        ::core::panicking::assert_failed(kind, &*left_val,
                            &*right_val, ::core::option::Option::None);
                    }
                }
            };
            let mut acc = 0u64;
            for (x, y) in self.iter().zip(b.iter()) { acc |= *x ^ *y; }
            acc.ct_zero()
        }
        fn ct_ne(self, b: Self) -> Choice { self.ct_eq(b).negate() }
    }
    impl<const N : usize> CtLesser for &[u8; N] {
        fn ct_lt(a: Self, b: Self) -> Choice {
            let mut borrow = 0u8;
            for (x, y) in a.iter().rev().zip(b.iter().rev()) {
                let x1: i16 = ((*x as i16) - (borrow as i16)) - (*y as i16);
                let x2: i8 = (x1 >> 8) as i8;
                borrow = (0x0 - x2) as u8;
            }
            let borrow = borrow as u64;
            Choice((borrow | borrow.wrapping_neg()) >> 63)
        }
    }
    #[allow(unused)]
    pub(crate) fn ct_array64_maybe_swap_with<const N :
        usize>(a: &mut [u64; N], b: &mut [u64; N], swap: Choice) {
        let mut tmp = [0; N];
        let mask = swap.0.wrapping_neg();
        for (xo, (xa, xb)) in tmp.iter_mut().zip(a.iter().zip(b.iter())) {
            *xo = (*xa ^ *xb) & mask;
        }
        for (xa, xo) in a.iter_mut().zip(tmp.iter()) { *xa ^= *xo; }
        for (xb, xo) in b.iter_mut().zip(tmp.iter()) { *xb ^= *xo; }
    }
    #[allow(unused)]
    pub(crate) fn ct_array32_maybe_swap_with<const N :
        usize>(a: &mut [i32; N], b: &mut [i32; N], swap: Choice) {
        let mut tmp = [0; N];
        let mask = (swap.0 as u32).wrapping_neg();
        for (xo, (xa, xb)) in tmp.iter_mut().zip(a.iter().zip(b.iter())) {
            *xo = (*xa ^ *xb) & (mask as i32);
        }
        for (xa, xo) in a.iter_mut().zip(tmp.iter()) { *xa ^= *xo; }
        for (xb, xo) in b.iter_mut().zip(tmp.iter()) { *xb ^= *xo; }
    }
    #[allow(unused)]
    pub(crate) fn ct_array64_maybe_set<const N :
        usize>(a: &mut [u64; N], b: &[u64; N], swap: Choice) {
        let mut tmp = [0; N];
        let mask = swap.0.wrapping_neg();
        for (xo, (xa, xb)) in tmp.iter_mut().zip(a.iter().zip(b.iter())) {
            *xo = (*xa ^ *xb) & mask;
        }
        for (xa, xo) in a.iter_mut().zip(tmp.iter()) { *xa ^= *xo; }
    }
    #[allow(unused)]
    pub(crate) fn ct_array32_maybe_set<const N :
        usize>(a: &mut [i32; N], b: &[i32; N], swap: Choice) {
        let mut tmp = [0; N];
        let mask = (swap.0 as u32).wrapping_neg();
        for (xo, (xa, xb)) in tmp.iter_mut().zip(a.iter().zip(b.iter())) {
            *xo = (*xa ^ *xb) & (mask as i32);
        }
        for (xa, xo) in a.iter_mut().zip(tmp.iter()) { *xa ^= *xo; }
    }

} // verus!
}
fn main() {}
