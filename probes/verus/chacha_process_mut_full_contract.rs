use vstd::prelude::*;
use core::cmp;
use vstd::std_specs::cmp::OrdSpec;
verus! {
#[verifier::allow(undeclared_external_trait)]
pub assume_specification<T: core::cmp::Ord + core::marker::Destruct> [core::cmp::min::<T>] (a: T, b: T) -> (r: T)
    ensures (a.cmp_spec(&b) == core::cmp::Ordering::Greater ==> r == b), (a.cmp_spec(&b) != core::cmp::Ordering::Greater ==> r == a);

#[verifier::external_body]
pub fn xor_keystream_mut(buf: &mut [u8], keystream: &[u8])
    requires old(buf).len() <= keystream.len()
    ensures final(buf).len() == old(buf).len(),
            forall|i: int| 0 <= i < old(buf).len() ==> #[trigger] final(buf)[i] == old(buf)[i] ^ keystream[i]
{
    unimplemented!()
}

pub uninterp spec fn block(ctr: u32) -> Seq<u8>;
pub broadcast proof fn block_len(ctr: u32) ensures #[trigger] block(ctr).len() == 64 { admit(); }

// keystream byte at absolute position p (p / 64 as block counter mod 2^32)
pub open spec fn ks(p: int) -> u8 { block(((p / 64) % 0x1_0000_0000) as u32)[p % 64] }

pub struct ChaCha {
    pub ctr: u32,
    pub output: [u8; 64],
    pub offset: usize,
    pub pos: Ghost<int>,
}

impl ChaCha {
    pub open spec fn wf(&self) -> bool {
        &&& self.offset <= 64
        &&& self.pos@ >= 0
        &&& self.offset < 64 ==> (self.pos@ % 64 == self.offset as int 
               && self.output@ == block(((self.pos@ / 64) % 0x1_0000_0000) as u32)
               && self.ctr as int == (self.pos@ / 64 + 1) % 0x1_0000_0000)
        &&& self.offset == 64 ==> (self.pos@ % 64 == 0 && self.ctr as int == (self.pos@ / 64) % 0x1_0000_0000)
    }

    #[verifier::external_body]
    fn update(&mut self)
        requires old(self).offset == 64
        ensures final(self).output@ == block(old(self).ctr),
                final(self).ctr == old(self).ctr.wrapping_add(1),
                final(self).offset == 0,
                final(self).pos == old(self).pos,
    { unimplemented!() }

    pub fn process_mut(&mut self, data: &mut [u8])
        requires old(self).wf()
        ensures final(self).wf(), final(self).pos@ == old(self).pos@ + old(data).len(),
                final(data).len() == old(data).len(),
                forall|k: int| 0 <= k < old(data).len() ==> #[trigger] final(data)[k] == old(data)[k] ^ ks(old(self).pos@ + k),
    {
        broadcast use block_len;
        let len = data.len();
        let mut i = 0;
        let ghost pos0 = self.pos@;
        let ghost data0 = data@;
        while i < len 
            invariant self.wf(), i <= len, data.len() == len, data0.len() == len,
                self.pos@ == pos0 + i,
                forall|k: int| 0 <= k < i ==> #[trigger] data[k] == data0[k] ^ ks(pos0 + k),
                forall|k: int| i <= k < len ==> #[trigger] data[k] == data0[k],
            decreases len - i
        {
            // If there is no keystream available in the output buffer,
            // generate the next block.
            if self.offset == 64 {
                self.update();
            }

            // Process the min(available keystream, remaining input length).
            let count = cmp::min(64 - self.offset, len - i);
            let ghost before = data@;
            xor_keystream_mut(&mut data[i..i + count], &self.output[self.offset..]);
            proof {
                self.pos@ = self.pos@ + count;
            }
            i += count;
            self.offset += count;
        }
    }
}
} // verus!
fn main() {}
