use vstd::prelude::*;
verus! {
pub const B: usize = 200;
pub assume_specification [u64::rotate_left] (x: u64, n: u32) -> (r: u64)
    requires n < 64
    ensures r == if n == 0 { x } else { (x << n) | (x >> ((64 - n) as u32)) };
#[verifier::external_body]
fn read_u64v_le(dst: &mut [u64], input: &[u8]) requires old(dst).len() * 8 == input.len() ensures final(dst).len() == old(dst).len() { unimplemented!() }
#[verifier::external_body]
fn write_u64v_le(dst: &mut [u8], input: &[u64]) requires old(dst).len() == 8 * input.len() ensures final(dst).len() == old(dst).len() { unimplemented!() }
const NROUNDS: usize = 24;
const RC: [u64; 24] = [
    0x0000000000000001,
    0x0000000000008082,
    0x800000000000808a,
    0x8000000080008000,
    0x000000000000808b,
    0x0000000080000001,
    0x8000000080008081,
    0x8000000000008009,
    0x000000000000008a,
    0x0000000000000088,
    0x0000000080008009,
    0x000000008000000a,
    0x000000008000808b,
    0x800000000000008b,
    0x8000000000008089,
    0x8000000000008003,
    0x8000000000008002,
    0x8000000000000080,
    0x000000000000800a,
    0x800000008000000a,
    0x8000000080008081,
    0x8000000000008080,
    0x0000000080000001,
    0x8000000080008008,
];
const ROTC: [u32; 24] = [
    1, 3, 6, 10, 15, 21, 28, 36, 45, 55, 2, 14, 27, 41, 56, 8, 25, 43, 62, 18, 39, 61, 20, 44,
];
const PIL: [usize; 24] = [
    10, 7, 11, 17, 18, 3, 5, 16, 8, 21, 24, 4, 15, 23, 19, 13, 12, 2, 20, 14, 22, 9, 6, 1,
];
const M5: [usize; 10] = [0, 1, 2, 3, 4, 0, 1, 2, 3, 4];

// Code based on Keccak-compact64.c from ref implementation.
fn keccak_f(state: &mut [u8; B]) {
    let mut s: [u64; 25] = [0; 25];
    let mut t: [u64; 1] = [0; 1];
    let mut c: [u64; 5] = [0; 5];

    read_u64v_le(&mut s, state);

    for round in 0..NROUNDS {
        // Theta
        for x in 0..5 {
            c[x] = s[x] ^ s[5 + x] ^ s[10 + x] ^ s[15 + x] ^ s[20 + x];
        }
        for x in 0..5 {
            t[0] = c[M5[x + 4]] ^ c[M5[x + 1]].rotate_left(1);
            for y in 0..5 {
                s[y * 5 + x] ^= t[0];
            }
        }

        // Rho Pi
        t[0] = s[1];
        for x in 0..24 {
            c[0] = s[PIL[x]];
            s[PIL[x]] = t[0].rotate_left(ROTC[x]);
            t[0] = c[0];
        }

        // Chi
        for y in 0..5 {
            for x in 0..5 {
                c[x] = s[y * 5 + x];
            }
            for x in 0..5 {
                s[y * 5 + x] = c[x] ^ (!c[M5[x + 1]] & c[M5[x + 2]]);
            }
        }

        // Iota
        s[0] ^= RC[round];
    }

    write_u64v_le(state, &s);
}


} // verus!
fn main() {}
