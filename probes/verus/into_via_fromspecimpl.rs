use vstd::prelude::*;
verus! {
#[derive(Clone, Copy)]
pub struct Choice(pub u64);
impl Choice {
    pub fn is_true(self) -> (r: bool) ensures r == (self.0 == 1) { self.0 == 1 }
}
impl vstd::std_specs::convert::FromSpecImpl<Choice> for bool {
    open spec fn obeys_from_spec() -> bool { true }
    open spec fn from_spec(c: Choice) -> bool { c.0 == 1 }
}
impl From<Choice> for bool {
    fn from(c: Choice) -> (r: bool) 
        ensures r == (c.0 == 1)
    {
        c.is_true()
    }
}
pub fn last_line(c: Choice) -> (r: bool)
    ensures r == (c.0 == 1)
{
    c.into()
}
} // verus!
fn main() {}
