#![feature(panic_internals)]
use vstd::prelude::*;
verus! {
pub struct W { computed: bool, n: u64 }
impl W {
        fn input(&mut self, msg: &[u8]) 
            requires !old(self).computed
        {
            if !!self.computed {
                {
                    ::core::panicking::panic_fmt(format_args!("context is already finalized, needs reset"));
                }
            };
            self.n = 1;
        }
        fn f2(&mut self, x: usize)
            requires x < 5
        {
            if !(x < 5) { ::core::panicking::panic("assertion failed: x < 5") };
        }
}
} // verus!
fn main() {}
