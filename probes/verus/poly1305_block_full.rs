use vstd::prelude::*;
verus! {

pub open spec fn K1() -> int { 0x4000000 }                         // 2^26
pub open spec fn K2() -> int { 0x10000000000000 }                  // 2^52
pub open spec fn K3() -> int { 0x40000000000000000000 }            // 2^78
pub open spec fn K4() -> int { 0x100000000000000000000000000 }     // 2^104
pub open spec fn P1305() -> int { 0x4000000int * 0x100000000000000000000000000int - 5 }   // 2^130 - 5
pub open spec fn lv(h0: int, h1: int, h2: int, h3: int, h4: int) -> int {
    h0 + h1 * K1() + h2 * K2() + h3 * K3() + h4 * K4()
}

// (1) distributivity: one row at a time, small nonlinear queries
proof fn lemma_row(a: int, r0: int, r1: int, r2: int, r3: int, r4: int)
    ensures a * lv(r0,r1,r2,r3,r4) == a*r0 + (a*r1) * K1() + (a*r2) * K2() + (a*r3) * K3() + (a*r4) * K4()
{
    assert(a * (r0 + r1 * 0x4000000 + r2 * 0x10000000000000 + r3 * 0x40000000000000000000 + r4 * 0x100000000000000000000000000)
        == a*r0 + (a*r1) * 0x4000000 + (a*r2) * 0x10000000000000 + (a*r3) * 0x40000000000000000000 + (a*r4) * 0x100000000000000000000000000) by (nonlinear_arith);
}

// (2) the reduction identity is LINEAR in the 25 partial products
proof fn lemma_linear(
    p00: int, p01: int, p02: int, p03: int, p04: int,
    p10: int, p11: int, p12: int, p13: int, p14: int,
    p20: int, p21: int, p22: int, p23: int, p24: int,
    p30: int, p31: int, p32: int, p33: int, p34: int,
    p40: int, p41: int, p42: int, p43: int, p44: int)
    ensures ({
        let full = lv(p00,p01,p02,p03,p04) + lv(p10,p11,p12,p13,p14) * K1() + lv(p20,p21,p22,p23,p24) * K2()
                 + lv(p30,p31,p32,p33,p34) * K3() + lv(p40,p41,p42,p43,p44) * K4();
        let d0 = p00 + 5*p14 + 5*p23 + 5*p32 + 5*p41;
        let d1 = p01 + p10 + 5*p24 + 5*p33 + 5*p42;
        let d2 = p02 + p11 + p20 + 5*p34 + 5*p43;
        let d3 = p03 + p12 + p21 + p30 + 5*p44;
        let d4 = p04 + p13 + p22 + p31 + p40;
        let q = p14 + p23 + p32 + p41 + (p24 + p33 + p42) * K1() + (p34 + p43) * K2() + p44 * K3();
        full == lv(d0,d1,d2,d3,d4) + q * P1305()
    })
{
    let full = lv(p00,p01,p02,p03,p04) + lv(p10,p11,p12,p13,p14) * K1() + lv(p20,p21,p22,p23,p24) * K2()
             + lv(p30,p31,p32,p33,p34) * K3() + lv(p40,p41,p42,p43,p44) * K4();
    let d0 = p00 + 5*p14 + 5*p23 + 5*p32 + 5*p41;
    let d1 = p01 + p10 + 5*p24 + 5*p33 + 5*p42;
    let d2 = p02 + p11 + p20 + 5*p34 + 5*p43;
    let d3 = p03 + p12 + p21 + p30 + 5*p44;
    let d4 = p04 + p13 + p22 + p31 + p40;
    let q = p14 + p23 + p32 + p41 + (p24 + p33 + p42) * K1() + (p34 + p43) * K2() + p44 * K3();
    assert(full == lv(d0,d1,d2,d3,d4) + q * P1305()) by (nonlinear_arith)
        requires
            full == (p00 + p01 * 0x4000000 + p02 * 0x10000000000000 + p03 * 0x40000000000000000000 + p04 * 0x100000000000000000000000000)
                  + (p10 + p11 * 0x4000000 + p12 * 0x10000000000000 + p13 * 0x40000000000000000000 + p14 * 0x100000000000000000000000000) * 0x4000000
                  + (p20 + p21 * 0x4000000 + p22 * 0x10000000000000 + p23 * 0x40000000000000000000 + p24 * 0x100000000000000000000000000) * 0x10000000000000
                  + (p30 + p31 * 0x4000000 + p32 * 0x10000000000000 + p33 * 0x40000000000000000000 + p34 * 0x100000000000000000000000000) * 0x40000000000000000000
                  + (p40 + p41 * 0x4000000 + p42 * 0x10000000000000 + p43 * 0x40000000000000000000 + p44 * 0x100000000000000000000000000) * 0x100000000000000000000000000,
            lv(d0,d1,d2,d3,d4) == d0 + d1 * 0x4000000 + d2 * 0x10000000000000 + d3 * 0x40000000000000000000 + d4 * 0x100000000000000000000000000,
            d0 == p00 + 5*p14 + 5*p23 + 5*p32 + 5*p41,
            d1 == p01 + p10 + 5*p24 + 5*p33 + 5*p42,
            d2 == p02 + p11 + p20 + 5*p34 + 5*p43,
            d3 == p03 + p12 + p21 + p30 + 5*p44,
            d4 == p04 + p13 + p22 + p31 + p40,
            q == p14 + p23 + p32 + p41 + (p24 + p33 + p42) * 0x4000000 + (p34 + p43) * 0x10000000000000 + p44 * 0x40000000000000000000,
            P1305() == 0x4000000int * 0x100000000000000000000000000int - 5;
}

pub open spec fn M26() -> int { 0x4000000 }

pub struct Poly1305 {
    pub r: [u32; 5],
    pub h: [u32; 5],
    pub pad: [u32; 4],
    pub leftover: usize,
    pub buffer: [u8; 16],
    pub finalized: bool,
}

pub uninterp spec fn le32(b: Seq<u8>) -> u32;
#[verifier::external_body]
pub fn read_u32_le(input: &[u8]) -> (r: u32)
    requires input.len() == 4
    ensures r == le32(input@)
{ unimplemented!() }

#[inline(always)]
fn mul64(a: u32, b: u32) -> (r: u64)
    ensures r == a as int * b as int
{
    proof {
        assert(a as int * b as int <= 0xffffffff * 0xffffffff) by (nonlinear_arith)
            requires 0 <= a as int <= 0xffffffff, 0 <= b as int <= 0xffffffff;
    }
    a as u64 * b as u64
}

pub open spec fn hval(p: &Poly1305) -> int { lv(p.h[0] as int, p.h[1] as int, p.h[2] as int, p.h[3] as int, p.h[4] as int) }
pub open spec fn rval(p: &Poly1305) -> int { lv(p.r[0] as int, p.r[1] as int, p.r[2] as int, p.r[3] as int, p.r[4] as int) }
// limbs of the message block exactly as the code forms them
pub open spec fn mlimb(m: Seq<u8>, i: int, hibit: u32) -> u32 {
    if i == 0 { le32(m.subrange(0, 4)) & 0x3ffffff }
    else if i == 1 { (le32(m.subrange(3, 7)) >> 2) & 0x3ffffff }
    else if i == 2 { (le32(m.subrange(6, 10)) >> 4) & 0x3ffffff }
    else if i == 3 { (le32(m.subrange(9, 13)) >> 6) & 0x3ffffff }
    else { (le32(m.subrange(12, 16)) >> 8) | hibit }
}
pub open spec fn mval(m: Seq<u8>, hibit: u32) -> int {
    lv(mlimb(m, 0, hibit) as int, mlimb(m, 1, hibit) as int, mlimb(m, 2, hibit) as int, mlimb(m, 3, hibit) as int, mlimb(m, 4, hibit) as int)
}
pub open spec fn wf(p: &Poly1305) -> bool {
    &&& p.r[0] < 0x4000000 && p.r[1] < 0x4000000 && p.r[2] < 0x4000000 && p.r[3] < 0x4000000 && p.r[4] < 0x4000000
    &&& p.h[0] < 0x4000000 && p.h[1] < 0x4000040 && p.h[2] < 0x4000000 && p.h[3] < 0x4000000 && p.h[4] < 0x4000000
}

proof fn lemma_prod(a: int, b: int)
    requires 0 <= a < 0x8000040, 0 <= b < 0x14000000
    ensures 0 <= a * b < 0xa0000500000000
{
    assert(0 <= a * b < 0xa0000500000000) by (nonlinear_arith) requires 0 <= a < 0x8000040, 0 <= b < 0x14000000;
}
proof fn lemma_5(a: int, b: int) ensures a * (b * 5) == 5 * (a * b), a * (5 * b) == 5 * (a * b) {
    assert(a * (b * 5) == 5 * (a * b)) by (nonlinear_arith);
    assert(a * (5 * b) == 5 * (a * b)) by (nonlinear_arith);
}
proof fn lemma_masks(x: u32, hibit: u32)
    requires hibit == 0 || hibit == 0x1000000
    ensures (x & 0x3ffffff) < 0x4000000, ((x >> 2) & 0x3ffffff) < 0x4000000, ((x >> 4) & 0x3ffffff) < 0x4000000,
            ((x >> 6) & 0x3ffffff) < 0x4000000, ((x >> 8) | hibit) < 0x2000000
{
    assert((x & 0x3ffffff) < 0x4000000) by (bit_vector);
    assert(((x >> 2) & 0x3ffffff) < 0x4000000) by (bit_vector);
    assert(((x >> 4) & 0x3ffffff) < 0x4000000) by (bit_vector);
    assert(((x >> 6) & 0x3ffffff) < 0x4000000) by (bit_vector);
    assert(((x >> 8) | hibit) < 0x2000000) by (bit_vector) requires hibit == 0 || hibit == 0x1000000;
}
proof fn lemma_c64(d: u64)
    requires d < 0x400000000000000
    ensures d == ((d >> 26) as u32) as int * 0x4000000 + ((d as u32) & 0x3ffffff),
            ((d as u32) & 0x3ffffff) < 0x4000000,
            (d >> 26) < 0x100000000,
            d < 0xa0000600000000 ==> (d >> 26) < 0x28000180
{
    assert(d < 0x400000000000000 ==> d == ((d >> 26) as u32) as u64 * 0x4000000 + (((d as u32) & 0x3ffffff) as u64)) by (bit_vector);
    assert(((d as u32) & 0x3ffffff) < 0x4000000) by (bit_vector);
    assert(d < 0x400000000000000 ==> (d >> 26) < 0x100000000) by (bit_vector);
    assert(d < 0xa0000600000000 ==> (d >> 26) < 0x28000180) by (bit_vector);
}
proof fn lemma_prod_small(a: int, b: int)
    requires 0 <= a < 0x8000040, 0 <= b < 0x4000000
    ensures 0 <= a * b <= 0x200000fffffffc
{
    assert(0 <= a * b <= 0x8000040 * 0x4000000 - 0x4000000 - 0x8000040 + 1) by (nonlinear_arith) requires 0 <= a < 0x8000040, 0 <= b < 0x4000000;
}
proof fn lemma_c32(x: u32)
    ensures x == (x >> 26) * 0x4000000 + (x & 0x3ffffff), (x & 0x3ffffff) < 0x4000000, (x >> 26) < 0x40
{
    assert(x == (x >> 26) * 0x4000000 + (x & 0x3ffffff)) by (bit_vector);
    assert((x & 0x3ffffff) < 0x4000000) by (bit_vector);
    assert((x >> 26) < 0x40) by (bit_vector);
}

impl Poly1305 {
    // body = /repo poly1305.rs `block`, verbatim
    fn block(&mut self, m: &[u8])
        requires wf(old(self)), m.len() == 16
        ensures wf(final(self)), final(self).r == old(self).r, final(self).pad == old(self).pad,
                final(self).finalized == old(self).finalized, final(self).leftover == old(self).leftover, final(self).buffer == old(self).buffer,
                (hval(final(self)) - (hval(old(self)) + mval(m@, if old(self).finalized { 0u32 } else { 0x1000000u32 })) * rval(old(self))) % P1305() == 0
    {
        let hibit : u32 = if self.finalized { 0 } else { 1 << 24 };

        let r0 = self.r[0];
        let r1 = self.r[1];
        let r2 = self.r[2];
        let r3 = self.r[3];
        let r4 = self.r[4];

        let s1 = r1 * 5;
        let s2 = r2 * 5;
        let s3 = r3 * 5;
        let s4 = r4 * 5;

        let mut h0 = self.h[0];
        let mut h1 = self.h[1];
        let mut h2 = self.h[2];
        let mut h3 = self.h[3];
        let mut h4 = self.h[4];

        proof {
            assert((1u32 << 24) == 0x1000000u32) by (bit_vector);
            assert(hibit == (if old(self).finalized { 0u32 } else { 0x1000000u32 }));
            lemma_masks(le32(m@.subrange(0, 4)), hibit); lemma_masks(le32(m@.subrange(3, 7)), hibit); lemma_masks(le32(m@.subrange(6, 10)), hibit);
            lemma_masks(le32(m@.subrange(9, 13)), hibit); lemma_masks(le32(m@.subrange(12, 16)), hibit);
        }
        // h += m
        h0 += (read_u32_le(&m[0..4])     ) & 0x3ffffff;
        h1 += (read_u32_le(&m[3..7]) >> 2) & 0x3ffffff;
        h2 += (read_u32_le(&m[6..10]) >> 4) & 0x3ffffff;
        h3 += (read_u32_le(&m[9..13]) >> 6) & 0x3ffffff;
        h4 += (read_u32_le(&m[12..16]) >> 8) | hibit;

        let ghost a0 = h0 as int; let ghost a1 = h1 as int; let ghost a2 = h2 as int; let ghost a3 = h3 as int; let ghost a4 = h4 as int;
        let ghost b0 = r0 as int; let ghost b1 = r1 as int; let ghost b2 = r2 as int; let ghost b3 = r3 as int; let ghost b4 = r4 as int;
        proof {
            assert(lv(a0, a1, a2, a3, a4) == hval(old(self)) + mval(m@, hibit));
            lemma_prod(a0, b0); lemma_prod(a0, b1); lemma_prod(a0, b2); lemma_prod(a0, b3); lemma_prod(a0, b4);
            lemma_prod(a1, b0); lemma_prod(a1, b1); lemma_prod(a1, b2); lemma_prod(a1, b3); lemma_prod(a1, 5*b4);
            lemma_prod(a2, b0); lemma_prod(a2, b1); lemma_prod(a2, b2); lemma_prod(a2, 5*b3); lemma_prod(a2, 5*b4);
            lemma_prod(a3, b0); lemma_prod(a3, b1); lemma_prod(a3, 5*b2); lemma_prod(a3, 5*b3); lemma_prod(a3, 5*b4);
            lemma_prod(a4, b0); lemma_prod(a4, 5*b1); lemma_prod(a4, 5*b2); lemma_prod(a4, 5*b3); lemma_prod(a4, 5*b4);
            lemma_prod_small(a0, b4); lemma_prod_small(a1, b3); lemma_prod_small(a2, b2); lemma_prod_small(a3, b1); lemma_prod_small(a4, b0);
            lemma_5(a1, b4); lemma_5(a2, b3); lemma_5(a2, b4); lemma_5(a3, b2); lemma_5(a3, b3); lemma_5(a3, b4);
            lemma_5(a4, b1); lemma_5(a4, b2); lemma_5(a4, b3); lemma_5(a4, b4);
        }

        // h *= r
        let     d0 = mul64(h0, r0) + mul64(h1, s4) + mul64(h2, s3) + mul64(h3, s2) + mul64(h4, s1);
        let mut d1 = mul64(h0, r1) + mul64(h1, r0) + mul64(h2, s4) + mul64(h3, s3) + mul64(h4, s2);
        let mut d2 = mul64(h0, r2) + mul64(h1, r1) + mul64(h2, r0) + mul64(h3, s4) + mul64(h4, s3);
        let mut d3 = mul64(h0, r3) + mul64(h1, r2) + mul64(h2, r1) + mul64(h3, r0) + mul64(h4, s4);
        let mut d4 = mul64(h0, r4) + mul64(h1, r3) + mul64(h2, r2) + mul64(h3, r1) + mul64(h4, r0);

        let ghost u0 = d0 as int; let ghost u1 = d1 as int; let ghost u2 = d2 as int; let ghost u3 = d3 as int; let ghost u4 = d4 as int;
        proof {
            assert(u0 == a0*b0 + 5*(a1*b4) + 5*(a2*b3) + 5*(a3*b2) + 5*(a4*b1));
            assert(u1 == a0*b1 + a1*b0 + 5*(a2*b4) + 5*(a3*b3) + 5*(a4*b2));
            assert(u2 == a0*b2 + a1*b1 + a2*b0 + 5*(a3*b4) + 5*(a4*b3));
            assert(u3 == a0*b3 + a1*b2 + a2*b1 + a3*b0 + 5*(a4*b4));
            assert(u4 == a0*b4 + a1*b3 + a2*b2 + a3*b1 + a4*b0);
        }

        // (partial) h %= p
        let mut c : u32;
                        proof { lemma_c64(d0); }
                        c = (d0 >> 26) as u32; h0 = d0 as u32 & 0x3ffffff;
        let ghost c0 = c as int; let ghost f0 = h0 as int;
        d1 += c as u64; proof { lemma_c64(d1); } c = (d1 >> 26) as u32; h1 = d1 as u32 & 0x3ffffff;
        let ghost c1 = c as int; let ghost f1 = h1 as int;
        d2 += c as u64; proof { lemma_c64(d2); } c = (d2 >> 26) as u32; h2 = d2 as u32 & 0x3ffffff;
        let ghost c2 = c as int; let ghost f2 = h2 as int;
        d3 += c as u64; proof { lemma_c64(d3); } c = (d3 >> 26) as u32; h3 = d3 as u32 & 0x3ffffff;
        let ghost c3 = c as int; let ghost f3 = h3 as int;
        d4 += c as u64; proof { assert(d4 < 0xa0000600000000); lemma_c64(d4); } c = (d4 >> 26) as u32; h4 = d4 as u32 & 0x3ffffff;
        let ghost c4 = c as int; let ghost f4 = h4 as int;
        h0 += c * 5;    proof { lemma_c32(h0); } let ghost g0 = h0 as int; c = h0 >> 26; h0 &= 0x3ffffff;
        h1 += c;

        self.h[0] = h0;
        self.h[1] = h1;
        self.h[2] = h2;
        self.h[3] = h3;
        self.h[4] = h4;

        proof {
            let cc = c as int;
            let outv = lv(h0 as int, h1 as int, f2, f3, f4);
            assert(hval(self) == outv);
            assert(outv == lv(u0, u1, u2, u3, u4) - c4 * P1305()) by (nonlinear_arith)
                requires
                    outv == (h0 as int) + (h1 as int) * 0x4000000 + f2 * 0x10000000000000 + f3 * 0x40000000000000000000 + f4 * 0x100000000000000000000000000,
                    lv(u0, u1, u2, u3, u4) == u0 + u1 * 0x4000000 + u2 * 0x10000000000000 + u3 * 0x40000000000000000000 + u4 * 0x100000000000000000000000000,
                    P1305() == 0x4000000int * 0x100000000000000000000000000int - 5,
                    u0 == c0 * 0x4000000 + f0, u1 + c0 == c1 * 0x4000000 + f1, u2 + c1 == c2 * 0x4000000 + f2,
                    u3 + c2 == c3 * 0x4000000 + f3, u4 + c3 == c4 * 0x4000000 + f4,
                    g0 == f0 + 5 * c4, g0 == cc * 0x4000000 + h0 as int, h1 as int == f1 + cc;
            lemma_row(a0, b0, b1, b2, b3, b4); lemma_row(a1, b0, b1, b2, b3, b4); lemma_row(a2, b0, b1, b2, b3, b4);
            lemma_row(a3, b0, b1, b2, b3, b4); lemma_row(a4, b0, b1, b2, b3, b4);
            lemma_linear(a0*b0, a0*b1, a0*b2, a0*b3, a0*b4, a1*b0, a1*b1, a1*b2, a1*b3, a1*b4, a2*b0, a2*b1, a2*b2, a2*b3, a2*b4,
                         a3*b0, a3*b1, a3*b2, a3*b3, a3*b4, a4*b0, a4*b1, a4*b2, a4*b3, a4*b4);
            let bv = lv(b0, b1, b2, b3, b4);
            let full = lv(a0*b0, a0*b1, a0*b2, a0*b3, a0*b4) + lv(a1*b0, a1*b1, a1*b2, a1*b3, a1*b4) * K1() + lv(a2*b0, a2*b1, a2*b2, a2*b3, a2*b4) * K2()
                 + lv(a3*b0, a3*b1, a3*b2, a3*b3, a3*b4) * K3() + lv(a4*b0, a4*b1, a4*b2, a4*b3, a4*b4) * K4();
            assert(lv(a0, a1, a2, a3, a4) * bv == a0 * bv + (a1 * bv) * K1() + (a2 * bv) * K2() + (a3 * bv) * K3() + (a4 * bv) * K4()) by (nonlinear_arith)
                requires lv(a0, a1, a2, a3, a4) == a0 + a1 * K1() + a2 * K2() + a3 * K3() + a4 * K4();
            assert(full == lv(a0, a1, a2, a3, a4) * bv);
            let q = a1*b4 + a2*b3 + a3*b2 + a4*b1 + (a2*b4 + a3*b3 + a4*b2) * K1() + (a3*b4 + a4*b3) * K2() + (a4*b4) * K3();
            assert(full == lv(u0, u1, u2, u3, u4) + q * P1305());
            assert(bv == rval(old(self)));
            let hm = hval(old(self)) + mval(m@, hibit);
            let rv = rval(old(self));
            assert(outv - hm * rv == (0 - c4 - q) * P1305()) by (nonlinear_arith)
                requires outv == lv(u0, u1, u2, u3, u4) - c4 * P1305(), full == lv(u0, u1, u2, u3, u4) + q * P1305(),
                         full == lv(a0, a1, a2, a3, a4) * bv, lv(a0, a1, a2, a3, a4) == hm, bv == rv;
            assert(((0 - c4 - q) * P1305()) % P1305() == 0) by (nonlinear_arith) requires P1305() > 0;
        }
    }
}

} // verus!
fn main() {}
