use vstd::prelude::*;
verus! {

proof fn lemma_or_zero(a: u64, b: u8)
    ensures (a | (b as u64)) == 0 <==> (a == 0 && b == 0)
{
    assert((a | (b as u64)) == 0 <==> (a == 0 && b == 0)) by (bit_vector);
}

pub fn ct_zero_arr<const N: usize>(s: &[u8; N]) -> (r: u64)
    ensures r == 0 <==> (forall|i: int| 0 <= i < N ==> s[i] == 0)
{
        let mut acc = 0u64;
        for b in it: s.iter()
            invariant acc == 0 <==> (forall|i: int| 0 <= i < it.index@ ==> s[i] == 0)
        {
            proof { lemma_or_zero(acc, *b); }
            acc |= *b as u64
        }
        acc
}

} // verus!
fn main() {}
