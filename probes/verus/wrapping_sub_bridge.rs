use vstd::prelude::*;
verus! {
proof fn lemma_sub(a: u64, b: u64)
    ensures sub(a, b) == (if a >= b { (a - b) as u64 } else { (a + 0x1_0000_0000_0000_0000 - b) as u64 })
{
    assert(sub(a, b) == (if a >= b { (a - b) as u64 } else { (a + 0x1_0000_0000_0000_0000 - b) as u64 })) by (bit_vector);
}
pub fn t(a: u64, b: u64) -> (w: u64)
    ensures w == sub(a, b)
{
    proof { lemma_sub(a, b); }
    let w = a.wrapping_sub(b);
    w
}

} // verus!
fn main() {}
