use vstd::prelude::*;
verus! {
pub fn fill<const N: usize>(t: &mut [u64; N], v: u64)
    ensures forall|i: int| 0 <= i < N ==> final(t)[i] == v
{
    for xo in it: t.iter_mut()
        invariant forall|i: int| 0 <= i < it.index@ ==> *final(it.history@[i]) == v,
    {
        *xo = v;
    }
}
} // verus!
fn main() {}
