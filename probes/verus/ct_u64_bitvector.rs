use vstd::prelude::*;
verus! {

pub assume_specification [u64::wrapping_neg] (x: u64) -> (r: u64)
    ensures r == sub(0u64, x);

#[derive(Clone, Copy)]
pub struct Choice(pub u64);

proof fn lemma_zero(x: u64)
    ensures ((x | sub(0u64, x)) >> 63) == (if x == 0 { 0u64 } else { 1u64 }),
            1 ^ ((x | sub(0u64, x)) >> 63) == (if x == 0 { 1u64 } else { 0u64 }),
{
    assert(((x | sub(0u64, x)) >> 63) == (if x == 0 { 0u64 } else { 1u64 })) by (bit_vector);
    assert(1 ^ ((x | sub(0u64, x)) >> 63) == (if x == 0 { 1u64 } else { 0u64 })) by (bit_vector);
}

proof fn lemma_lt(a: u64, b: u64)
    ensures ((a ^ ((a ^ b) | (sub(a, b) ^ b))) >> 63) == (if a < b { 1u64 } else { 0u64 })
{
    assert(((a ^ ((a ^ b) | (sub(a, b) ^ b))) >> 63) == (if a < b { 1u64 } else { 0u64 })) by (bit_vector);
}

pub fn ct_zero(x: u64) -> (r: Choice) 
    ensures r.0 == (if x == 0 { 1u64 } else { 0u64 })
{
    proof { lemma_zero(x); }
    Choice(1 ^ ((x | x.wrapping_neg()) >> 63))
}

pub fn ct_lt(a: u64, b: u64) -> (r: Choice)
    ensures r.0 == (if a < b { 1u64 } else { 0u64 })
{
    proof { lemma_lt(a, b); }
    Choice((a ^ ((a ^ b) | ((a.wrapping_sub(b)) ^ b))) >> 63)
}

} // verus!
fn main() {}
