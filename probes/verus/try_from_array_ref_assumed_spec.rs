use vstd::prelude::*;
use core::convert::TryFrom;
verus! {
#[verifier::external_type_specification]
#[verifier::external_body]
pub struct ExTryFromSliceError(core::array::TryFromSliceError);

pub assume_specification<'a, T, const N: usize> [<&'a [T; N] as TryFrom<&'a [T]>>::try_from] (s: &'a [T]) -> (r: Result<&'a [T; N], core::array::TryFromSliceError>)
    ensures s@.len() == N ==> (r is Ok && r->Ok_0@ == s@), s@.len() != N ==> r is Err;

pub fn split(signature: &[u8; 64]) -> (r: (&[u8; 32], &[u8; 32]))
    ensures r.0@ == signature@.subrange(0, 32), r.1@ == signature@.subrange(32, 64)
{
    let signature_left = <&[u8; 32]>::try_from(&signature[0..32]).unwrap();
    let signature_right = <&[u8; 32]>::try_from(&signature[32..64]).unwrap();
    (signature_left, signature_right)
}
} // verus!
fn main() {}
