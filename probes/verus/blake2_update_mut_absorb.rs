use vstd::prelude::*;
verus! {

pub enum LastBlock { Yes, No }

pub struct Engine { pub h: [u64; 8], pub t: [u64; 2] }

pub uninterp spec fn F(h: Seq<u64>, t: int, blk: Seq<u8>, last: bool) -> Seq<u64>;

impl Engine {
    pub const BLOCK_BYTES: usize = 128;
    pub const BLOCK_BYTES_NATIVE: u64 = 128;

    pub open spec fn tval(&self) -> int { self.t[0] as int + self.t[1] as int * 0x1_0000_0000_0000_0000 }

    #[verifier::external_body]
    pub fn increment_counter(&mut self, inc: u64)
        ensures final(self).tval() == (old(self).tval() + inc) % (0x1_0000_0000_0000_0000int * 0x1_0000_0000_0000_0000int),
                final(self).h == old(self).h
    { unimplemented!() }

    #[verifier::external_body]
    pub fn compress(&mut self, buf: &[u8], last: LastBlock)
        requires buf.len() == 128
        ensures final(self).h@ == F(old(self).h@, old(self).tval(), buf@, last is Yes),
                final(self).t == old(self).t
    { unimplemented!() }
}

pub struct Context {
    pub eng: Engine,
    pub buf: [u8; 128],
    pub buflen: usize,
}

// abstract streaming state
pub struct St { pub h: Seq<u64>, pub t: int, pub tail: Seq<u8> }

pub open spec fn T128() -> int { (0x1_0000_0000_0000_0000int * 0x1_0000_0000_0000_0000int) }

// canonical absorb: defined by recursion on the input, mirroring RFC 7693's "keep the last block"
pub open spec fn absorb(s: St, inp: Seq<u8>) -> St
    decreases inp.len(), s.tail.len()
{
    if inp.len() == 0 || s.tail.len() > 128 { s }
    else if s.tail.len() + inp.len() <= 128 { St { h: s.h, t: s.t, tail: s.tail + inp } }
    else {
        let fill = 128 - s.tail.len();
        let t2 = (s.t + 128) % T128();
        let s2 = St { h: F(s.h, t2, s.tail + inp.subrange(0, fill), false), t: t2, tail: Seq::empty() };
        absorb(s2, inp.subrange(fill, inp.len() as int))
    }
}

impl Context {
    pub open spec fn wf(&self) -> bool { self.buflen <= 128 }
    pub open spec fn view(&self) -> St { St { h: self.eng.h@, t: self.eng.tval(), tail: self.buf@.subrange(0, self.buflen as int) } }

    pub fn update_mut(&mut self, mut input: &[u8]) 
        requires old(self).wf()
        ensures final(self).wf(), final(self).view() == absorb(old(self).view(), input@)
    {
        let ghost s0 = self.view();
        let ghost inp0 = input@;
        if input.is_empty() {
            return;
        }
        let fill = Engine::BLOCK_BYTES - self.buflen;

        if input.len() > fill {
            self.buf[self.buflen..self.buflen + fill].copy_from_slice(&input[0..fill]);
            self.buflen = 0;
            self.eng.increment_counter(Engine::BLOCK_BYTES_NATIVE);
            self.eng
                .compress(&self.buf[0..Engine::BLOCK_BYTES], LastBlock::No);

            input = &input[fill..];
            proof {
                assert(self.buf@.subrange(0, 128) =~= s0.tail + inp0.subrange(0, fill as int));
                assert(self.view().tail =~= Seq::<u8>::empty());
                assert(input@ =~= inp0.subrange(fill as int, inp0.len() as int));
            }

            while input.len() > Engine::BLOCK_BYTES 
                invariant self.buflen == 0, input.len() >= 1,
                    absorb(s0, inp0) == absorb(self.view(), input@),
                decreases input.len()
            {
                self.eng.increment_counter(Engine::BLOCK_BYTES_NATIVE);
                self.eng
                    .compress(&input[0..Engine::BLOCK_BYTES], LastBlock::No);
                proof {
                    let v = self.view();
                    assert(v.tail =~= Seq::<u8>::empty());
                }
                let ghost vold = self.view();
                let ghost iold = input@;
                input = &input[Engine::BLOCK_BYTES..];
                proof {
                    assert(input@ =~= iold.subrange(128, iold.len() as int));
                }
            }
        }
        let ghost vlast = self.view();
        let ghost ilast = input@;
        self.buf[self.buflen..self.buflen + input.len()].copy_from_slice(input);
        self.buflen += input.len();
        proof {
            assert(self.view().tail =~= vlast.tail + ilast);
        }
    }
}
} // verus!
fn main() {}
