use vstd::prelude::*;
verus! {

pub struct Fe(pub [u64; 5]);

pub const MASK: u64 = 0x7ffffffffffff; // (1 << 51) - 1   [probe: literal instead of the const expr]

pub open spec fn e51() -> int { 0x8000000000000 }
pub open spec fn e102() -> int { 0x40000000000000000000000000 }
pub open spec fn e153() -> int { (0x8000000000000int * 0x40000000000000000000000000int) }
pub open spec fn e204() -> int { (0x40000000000000000000000000int * 0x40000000000000000000000000int) }
pub open spec fn p25519() -> int { 0x8000000000000int * (0x40000000000000000000000000int * 0x40000000000000000000000000int) - 19 }
pub open spec fn lv(a0: int, a1: int, a2: int, a3: int, a4: int) -> int {
    a0 + a1 * e51() + a2 * e102() + a3 * e153() + a4 * e204()
}
pub open spec fn fe_val(f: &Fe) -> int { lv(f.0[0] as int, f.0[1] as int, f.0[2] as int, f.0[3] as int, f.0[4] as int) }
pub open spec fn fe_bounded(f: &Fe, b: int) -> bool {
    f.0[0] < b && f.0[1] < b && f.0[2] < b && f.0[3] < b && f.0[4] < b
}

#[inline]
const fn mul128(a: u64, b: u64) -> (r: u128)
    ensures r == a as int * b as int
{
    proof {
        assert(a as int * b as int <= 0xffffffffffffffff * 0xffffffffffffffff) by (nonlinear_arith)
            requires 0 <= a as int <= 0xffffffffffffffff, 0 <= b as int <= 0xffffffffffffffff;
    }
    a as u128 * b as u128
}

proof fn lemma_row(a: int, r0: int, r1: int, r2: int, r3: int, r4: int)
    ensures a * lv(r0,r1,r2,r3,r4) == a*r0 + (a*r1) * e51() + (a*r2) * e102() + (a*r3) * e153() + (a*r4) * e204()
{
    assert(a * (r0 + r1 * 0x8000000000000 + r2 * 0x40000000000000000000000000 + r3 * (0x8000000000000int * 0x40000000000000000000000000int) + r4 * (0x40000000000000000000000000int * 0x40000000000000000000000000int))
        == a*r0 + (a*r1) * 0x8000000000000 + (a*r2) * 0x40000000000000000000000000 + (a*r3) * (0x8000000000000int * 0x40000000000000000000000000int) + (a*r4) * (0x40000000000000000000000000int * 0x40000000000000000000000000int)) by (nonlinear_arith);
}

// linear in the 25 products p_ij = r_i * s_j
proof fn lemma_linear(
    p00: int, p01: int, p02: int, p03: int, p04: int,
    p10: int, p11: int, p12: int, p13: int, p14: int,
    p20: int, p21: int, p22: int, p23: int, p24: int,
    p30: int, p31: int, p32: int, p33: int, p34: int,
    p40: int, p41: int, p42: int, p43: int, p44: int)
    ensures ({
        let full = lv(p00,p01,p02,p03,p04) + lv(p10,p11,p12,p13,p14) * e51() + lv(p20,p21,p22,p23,p24) * e102()
                 + lv(p30,p31,p32,p33,p34) * e153() + lv(p40,p41,p42,p43,p44) * e204();
        let t0 = p00 + 19*(p41 + p14 + p23 + p32);
        let t1 = p01 + p10 + 19*(p42 + p24 + p33);
        let t2 = p02 + p20 + p11 + 19*(p43 + p34);
        let t3 = p03 + p30 + p12 + p21 + 19*p44;
        let t4 = p04 + p40 + p31 + p13 + p22;
        let q = p41 + p14 + p23 + p32 + (p42 + p24 + p33) * e51() + (p43 + p34) * e102() + p44 * e153();
        full == lv(t0,t1,t2,t3,t4) + q * p25519()
    })
{
    let full = lv(p00,p01,p02,p03,p04) + lv(p10,p11,p12,p13,p14) * e51() + lv(p20,p21,p22,p23,p24) * e102()
             + lv(p30,p31,p32,p33,p34) * e153() + lv(p40,p41,p42,p43,p44) * e204();
    let t0 = p00 + 19*(p41 + p14 + p23 + p32);
    let t1 = p01 + p10 + 19*(p42 + p24 + p33);
    let t2 = p02 + p20 + p11 + 19*(p43 + p34);
    let t3 = p03 + p30 + p12 + p21 + 19*p44;
    let t4 = p04 + p40 + p31 + p13 + p22;
    let q = p41 + p14 + p23 + p32 + (p42 + p24 + p33) * e51() + (p43 + p34) * e102() + p44 * e153();
    assert(full == lv(t0,t1,t2,t3,t4) + q * p25519()) by (nonlinear_arith)
        requires
            full == (p00 + p01 * 0x8000000000000 + p02 * 0x40000000000000000000000000 + p03 * (0x8000000000000int * 0x40000000000000000000000000int) + p04 * (0x40000000000000000000000000int * 0x40000000000000000000000000int))
                  + (p10 + p11 * 0x8000000000000 + p12 * 0x40000000000000000000000000 + p13 * (0x8000000000000int * 0x40000000000000000000000000int) + p14 * (0x40000000000000000000000000int * 0x40000000000000000000000000int)) * 0x8000000000000
                  + (p20 + p21 * 0x8000000000000 + p22 * 0x40000000000000000000000000 + p23 * (0x8000000000000int * 0x40000000000000000000000000int) + p24 * (0x40000000000000000000000000int * 0x40000000000000000000000000int)) * 0x40000000000000000000000000
                  + (p30 + p31 * 0x8000000000000 + p32 * 0x40000000000000000000000000 + p33 * (0x8000000000000int * 0x40000000000000000000000000int) + p34 * (0x40000000000000000000000000int * 0x40000000000000000000000000int)) * (0x8000000000000int * 0x40000000000000000000000000int)
                  + (p40 + p41 * 0x8000000000000 + p42 * 0x40000000000000000000000000 + p43 * (0x8000000000000int * 0x40000000000000000000000000int) + p44 * (0x40000000000000000000000000int * 0x40000000000000000000000000int)) * (0x40000000000000000000000000int * 0x40000000000000000000000000int),
            lv(t0,t1,t2,t3,t4) == t0 + t1 * 0x8000000000000 + t2 * 0x40000000000000000000000000 + t3 * (0x8000000000000int * 0x40000000000000000000000000int) + t4 * (0x40000000000000000000000000int * 0x40000000000000000000000000int),
            t0 == p00 + 19*(p41 + p14 + p23 + p32),
            t1 == p01 + p10 + 19*(p42 + p24 + p33),
            t2 == p02 + p20 + p11 + 19*(p43 + p34),
            t3 == p03 + p30 + p12 + p21 + 19*p44,
            t4 == p04 + p40 + p31 + p13 + p22,
            q == p41 + p14 + p23 + p32 + (p42 + p24 + p33) * 0x8000000000000 + (p43 + p34) * 0x40000000000000000000000000 + p44 * (0x8000000000000int * 0x40000000000000000000000000int),
            p25519() == 0x8000000000000int * (0x40000000000000000000000000int * 0x40000000000000000000000000int) - 19;
}

// product of two numbers below 2^53 is below 2^106; and 19x variant
proof fn lemma_prod_bound(a: int, b: int)
    requires 0 <= a < 0x20000000000000, 0 <= b < 0x20000000000000
    ensures 0 <= a * b < 0x400000000000000000000000000, (19 * a) * b == 19 * (a * b)
{
    assert(0 <= a * b < 0x400000000000000000000000000) by (nonlinear_arith)
        requires 0 <= a < 0x20000000000000, 0 <= b < 0x20000000000000;
    assert((19 * a) * b == 19 * (a * b)) by (nonlinear_arith);
}

// carry step on u128: x == (x >> 51) * 2^51 + (x as u64 & MASK)
proof fn lemma_carry128(x: u128)
    ensures x == (x >> 51) * 0x8000000000000 + ((x as u64) & 0x7ffffffffffff),
            ((x as u64) & 0x7ffffffffffff) < 0x8000000000000,
            x < 0x10000000000000000000000000000 ==> (x >> 51) < 0x2000000000000000,   // x < 2^112 ==> c < 2^61 (fits u64)
{
    assert(x == (x >> 51) * 0x8000000000000 + ((x as u64) & 0x7ffffffffffff)) by (bit_vector);
    assert(((x as u64) & 0x7ffffffffffff) < 0x8000000000000) by (bit_vector);
    assert(x < 0x10000000000000000000000000000 ==> (x >> 51) < 0x2000000000000000) by (bit_vector);
}
proof fn lemma_carry64(x: u64)
    ensures x == (x >> 51) * 0x8000000000000 + (x & 0x7ffffffffffff),
            (x & 0x7ffffffffffff) < 0x8000000000000, (x >> 51) < 0x2000
{
    assert(x == (x >> 51) * 0x8000000000000 + (x & 0x7ffffffffffff)) by (bit_vector);
    assert((x & 0x7ffffffffffff) < 0x8000000000000) by (bit_vector);
    assert((x >> 51) < 0x2000) by (bit_vector);
}

pub open spec fn B53() -> int { 0x20000000000000 }

impl Fe {
    // body = /repo fe64 `impl Mul for &Fe :: mul` after rule X4 (array patterns -> projections)
    fn mul(&self, rhs: &Fe) -> (out: Fe)
        requires fe_bounded(self, B53()), fe_bounded(rhs, B53())
        ensures (fe_val(&out) - fe_val(self) * fe_val(rhs)) % p25519() == 0,
                fe_bounded(&out, 0x8000000002000)
    {
        let mut r0 = self.0[0]; let mut r1 = self.0[1]; let mut r2 = self.0[2]; let mut r3 = self.0[3]; let mut r4 = self.0[4];
        let s0 = rhs.0[0]; let s1 = rhs.0[1]; let s2 = rhs.0[2]; let s3 = rhs.0[3]; let s4 = rhs.0[4];

        proof {
            lemma_prod_bound(r0 as int, s0 as int); lemma_prod_bound(r0 as int, s1 as int); lemma_prod_bound(r0 as int, s2 as int); lemma_prod_bound(r0 as int, s3 as int); lemma_prod_bound(r0 as int, s4 as int);
            lemma_prod_bound(r1 as int, s0 as int); lemma_prod_bound(r1 as int, s1 as int); lemma_prod_bound(r1 as int, s2 as int); lemma_prod_bound(r1 as int, s3 as int); lemma_prod_bound(r1 as int, s4 as int);
            lemma_prod_bound(r2 as int, s0 as int); lemma_prod_bound(r2 as int, s1 as int); lemma_prod_bound(r2 as int, s2 as int); lemma_prod_bound(r2 as int, s3 as int); lemma_prod_bound(r2 as int, s4 as int);
            lemma_prod_bound(r3 as int, s0 as int); lemma_prod_bound(r3 as int, s1 as int); lemma_prod_bound(r3 as int, s2 as int); lemma_prod_bound(r3 as int, s3 as int); lemma_prod_bound(r3 as int, s4 as int);
            lemma_prod_bound(r4 as int, s0 as int); lemma_prod_bound(r4 as int, s1 as int); lemma_prod_bound(r4 as int, s2 as int); lemma_prod_bound(r4 as int, s3 as int); lemma_prod_bound(r4 as int, s4 as int);
        }
        let ghost a0 = r0 as int; let ghost a1 = r1 as int; let ghost a2 = r2 as int; let ghost a3 = r3 as int; let ghost a4 = r4 as int;
        let ghost b0 = s0 as int; let ghost b1 = s1 as int; let ghost b2 = s2 as int; let ghost b3 = s3 as int; let ghost b4 = s4 as int;

        let mut t0 = mul128(r0, s0);
        let mut t1 = mul128(r0, s1) + mul128(r1, s0);
        let mut t2 = mul128(r0, s2) + mul128(r2, s0) + mul128(r1, s1);
        let mut t3 = mul128(r0, s3) + mul128(r3, s0) + mul128(r1, s2) + mul128(r2, s1);
        let mut t4 = mul128(r0, s4) + mul128(r4, s0) + mul128(r3, s1) + mul128(r1, s3) + mul128(r2, s2);

        r1 *= 19;
        r2 *= 19;
        r3 *= 19;
        r4 *= 19;

        t0 += mul128(r4, s1) + mul128(r1, s4) + mul128(r2, s3) + mul128(r3, s2);
        t1 += mul128(r4, s2) + mul128(r2, s4) + mul128(r3, s3);
        t2 += mul128(r4, s3) + mul128(r3, s4);
        t3 += mul128(r4, s4);

        proof {
            assert(t0 == a0*b0 + 19*(a4*b1 + a1*b4 + a2*b3 + a3*b2));
            assert(t1 == a0*b1 + a1*b0 + 19*(a4*b2 + a2*b4 + a3*b3));
            assert(t2 == a0*b2 + a2*b0 + a1*b1 + 19*(a4*b3 + a3*b4));
            assert(t3 == a0*b3 + a3*b0 + a1*b2 + a2*b1 + 19*(a4*b4));
            assert(t4 == a0*b4 + a4*b0 + a3*b1 + a1*b3 + a2*b2);
        }
        let ghost u0 = t0 as int; let ghost u1 = t1 as int; let ghost u2 = t2 as int; let ghost u3 = t3 as int; let ghost u4 = t4 as int;

        proof { lemma_carry128(t0); }
        r0 = (t0 as u64) & MASK; let c = (t0 >> 51) as u64; t1 += c as u128;
        let ghost c0 = c as int; let ghost f0 = r0 as int;
        proof { lemma_carry128(t1); }
        r1 = (t1 as u64) & MASK; let c = (t1 >> 51) as u64; t2 += c as u128;
        let ghost c1 = c as int; let ghost f1 = r1 as int;
        proof { lemma_carry128(t2); }
        r2 = (t2 as u64) & MASK; let c = (t2 >> 51) as u64; t3 += c as u128;
        let ghost c2 = c as int; let ghost f2 = r2 as int;
        proof { lemma_carry128(t3); }
        r3 = (t3 as u64) & MASK; let c = (t3 >> 51) as u64; t4 += c as u128;
        let ghost c3 = c as int; let ghost f3 = r3 as int;
        proof { lemma_carry128(t4); }
        r4 = (t4 as u64) & MASK; let c = (t4 >> 51) as u64; r0 += c * 19;
        let ghost c4 = c as int; let ghost f4 = r4 as int; let ghost g0 = r0 as int;
                                 proof { lemma_carry64(r0); }
                                 let c = r0 >> 51         ; r0 = r0 & MASK;
        r1 += c;
        proof {
            let cc = c as int;
            // carry chain, all linear with literal constants
            assert(u0 == c0 * e51() + f0);
            assert(u1 + c0 == c1 * e51() + f1);
            assert(u2 + c1 == c2 * e51() + f2);
            assert(u3 + c2 == c3 * e51() + f3);
            assert(u4 + c3 == c4 * e51() + f4);
            assert(g0 == f0 + 19 * c4);
            assert(g0 == cc * e51() + r0 as int);
            assert(r1 as int == f1 + cc);
            let outv = lv(r0 as int, r1 as int, f2, f3, f4);
            assert(outv == lv(u0, u1, u2, u3, u4) - c4 * p25519()) by (nonlinear_arith)
                requires
                    outv == (r0 as int) + (r1 as int) * 0x8000000000000int + f2 * 0x40000000000000000000000000int + f3 * (0x8000000000000int * 0x40000000000000000000000000int) + f4 * (0x40000000000000000000000000int * 0x40000000000000000000000000int),
                    lv(u0, u1, u2, u3, u4) == u0 + u1 * 0x8000000000000int + u2 * 0x40000000000000000000000000int + u3 * (0x8000000000000int * 0x40000000000000000000000000int) + u4 * (0x40000000000000000000000000int * 0x40000000000000000000000000int),
                    p25519() == 0x8000000000000int * (0x40000000000000000000000000int * 0x40000000000000000000000000int) - 19,
                    u0 == c0 * 0x8000000000000int + f0,
                    u1 + c0 == c1 * 0x8000000000000int + f1,
                    u2 + c1 == c2 * 0x8000000000000int + f2,
                    u3 + c2 == c3 * 0x8000000000000int + f3,
                    u4 + c3 == c4 * 0x8000000000000int + f4,
                    g0 == f0 + 19 * c4,
                    g0 == cc * 0x8000000000000int + r0 as int,
                    r1 as int == f1 + cc;
            // products
            lemma_row(a0, b0, b1, b2, b3, b4); lemma_row(a1, b0, b1, b2, b3, b4); lemma_row(a2, b0, b1, b2, b3, b4);
            lemma_row(a3, b0, b1, b2, b3, b4); lemma_row(a4, b0, b1, b2, b3, b4);
            lemma_linear(a0*b0, a0*b1, a0*b2, a0*b3, a0*b4, a1*b0, a1*b1, a1*b2, a1*b3, a1*b4, a2*b0, a2*b1, a2*b2, a2*b3, a2*b4,
                         a3*b0, a3*b1, a3*b2, a3*b3, a3*b4, a4*b0, a4*b1, a4*b2, a4*b3, a4*b4);
            let bv = lv(b0, b1, b2, b3, b4);
            let full = lv(a0*b0, a0*b1, a0*b2, a0*b3, a0*b4) + lv(a1*b0, a1*b1, a1*b2, a1*b3, a1*b4) * e51() + lv(a2*b0, a2*b1, a2*b2, a2*b3, a2*b4) * e102()
                 + lv(a3*b0, a3*b1, a3*b2, a3*b3, a3*b4) * e153() + lv(a4*b0, a4*b1, a4*b2, a4*b3, a4*b4) * e204();
            assert(lv(a0, a1, a2, a3, a4) * bv == a0 * bv + (a1 * bv) * e51() + (a2 * bv) * e102() + (a3 * bv) * e153() + (a4 * bv) * e204()) by (nonlinear_arith)
                requires lv(a0, a1, a2, a3, a4) == a0 + a1 * e51() + a2 * e102() + a3 * e153() + a4 * e204();
            assert(full == lv(a0, a1, a2, a3, a4) * bv);
            let q = a4*b1 + a1*b4 + a2*b3 + a3*b2 + (a4*b2 + a2*b4 + a3*b3) * e51() + (a4*b3 + a3*b4) * e102() + (a4*b4) * e153();
            assert(full == lv(u0, u1, u2, u3, u4) + q * p25519());
            assert(outv - fe_val(self) * fe_val(rhs) == (0 - c4 - q) * p25519()) by (nonlinear_arith)
                requires outv == lv(u0, u1, u2, u3, u4) - c4 * p25519(), full == lv(u0, u1, u2, u3, u4) + q * p25519(), full == fe_val(self) * fe_val(rhs);
            assert(((0 - c4 - q) * p25519()) % p25519() == 0) by (nonlinear_arith) requires p25519() > 0;
        }

        Fe([r0, r1, r2, r3, r4])
    }
}

} // verus!
fn main() {}
