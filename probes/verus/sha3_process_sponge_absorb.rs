use vstd::prelude::*;
use core::cmp;
use vstd::std_specs::cmp::OrdSpec;
verus! {
#[verifier::allow(undeclared_external_trait)]
pub assume_specification<T: core::cmp::Ord + core::marker::Destruct> [core::cmp::min::<T>] (a: T, b: T) -> (r: T)
    ensures (a.cmp_spec(&b) == core::cmp::Ordering::Greater ==> r == b), (a.cmp_spec(&b) != core::cmp::Ordering::Greater ==> r == a);

pub const B: usize = 200;
pub uninterp spec fn kf(s: Seq<u8>) -> Seq<u8>;   // Keccak-f[1600] on the byte state
pub broadcast proof fn kf_len(s: Seq<u8>) ensures #[trigger] kf(s).len() == s.len() { admit(); }

#[verifier::external_body]
fn keccak_f(state: &mut [u8; B])
    ensures final(state)@ == kf(old(state)@)
{ unimplemented!() }

pub struct Engine<const DIGESTLEN: usize, const DSLEN: usize> {
    pub state: [u8; B],
    pub can_absorb: bool,
    pub can_squeeze: bool,
    pub offset: usize,
}

// xor `d` into `s` starting at `off`
pub open spec fn xor_at(s: Seq<u8>, off: int, d: Seq<u8>) -> Seq<u8> {
    Seq::new(s.len(), |i: int| if off <= i < off + d.len() { s[i] ^ d[i - off] } else { s[i] })
}
// canonical sponge absorb (FIPS 202 absorbing phase, byte-granular, streaming form)
pub open spec fn absorb(s: Seq<u8>, off: int, r: int, d: Seq<u8>) -> (Seq<u8>, int)
    decreases d.len()
{
    if d.len() == 0 || !(0 <= off < r) { (s, off) }
    else if off + d.len() < r { (xor_at(s, off, d), off + d.len()) }
    else {
        let n = r - off;
        absorb(kf(xor_at(s, off, d.subrange(0, n))), 0, r, d.subrange(n, d.len() as int))
    }
}

impl<const DIGESTLEN: usize, const DSLEN: usize> Engine<DIGESTLEN, DSLEN> {
    pub open spec fn wf(&self) -> bool { DIGESTLEN * 2 < B && DIGESTLEN > 0 && self.offset < B - DIGESTLEN * 2 }

    fn rate(&self) -> (r: usize)
        requires DIGESTLEN * 2 < B
        ensures r == B - DIGESTLEN * 2
    {
        B - (DIGESTLEN * 2)
    }

    // body = /repo sha3.rs Engine::process, verbatim
    pub fn process(&mut self, data: &[u8])
        requires old(self).wf(), old(self).can_absorb
        ensures final(self).wf(), final(self).can_absorb == old(self).can_absorb, final(self).can_squeeze == old(self).can_squeeze,
                (final(self).state@, final(self).offset as int) == absorb(old(self).state@, old(self).offset as int, (B - DIGESTLEN * 2) as int, data@)
    {
        broadcast use kf_len;
        if !self.can_absorb {
            panic!("Invalid state, absorb phase already finalized.");
        }

        let r = self.rate();
        assert!(self.offset < r);

        let in_len = data.len();
        let mut in_pos: usize = 0;
        let ghost s0 = self.state@;
        let ghost o0 = self.offset as int;

        proof { assert(data@.subrange(0, in_len as int) =~= data@); }
        // Absorb
        while in_pos < in_len
            invariant self.wf(), r == B - DIGESTLEN * 2, in_pos <= in_len, in_len == data.len(),
                self.can_absorb == old(self).can_absorb, self.can_squeeze == old(self).can_squeeze,
                absorb(s0, o0, r as int, data@) == absorb(self.state@, self.offset as int, r as int, data@.subrange(in_pos as int, in_len as int)),
            ensures absorb(s0, o0, r as int, data@) == (self.state@, self.offset as int), self.wf(),
                self.can_absorb == old(self).can_absorb, self.can_squeeze == old(self).can_squeeze,
            decreases in_len - in_pos
        {
            let offset = self.offset;
            let nread = cmp::min(r - offset, in_len - in_pos);
            let ghost sb = self.state@;
            for i in 0..nread
                invariant nread <= r - offset, nread <= in_len - in_pos, r <= B, in_len == data.len(), offset == self.offset,
                    self.can_absorb == old(self).can_absorb, self.can_squeeze == old(self).can_squeeze,
                    self.state@ == xor_at(sb, offset as int, data@.subrange(in_pos as int, in_pos + i)),
            {
                self.state[offset + i] ^= data[in_pos + i];
                proof {
                    assert(self.state@ =~= xor_at(sb, offset as int, data@.subrange(in_pos as int, in_pos + i + 1)));
                }
            }
            let ghost rest = data@.subrange(in_pos as int, in_len as int);
            proof {
                assert(data@.subrange(in_pos as int, in_pos + nread) =~= rest.subrange(0, nread as int));
            }
            in_pos += nread;

            if offset + nread != r {
                self.offset += nread;
                proof {
                    assert(rest.subrange(0, nread as int) =~= rest);
                    assert(in_pos == in_len);
                    assert(data@.subrange(in_pos as int, in_len as int) =~= Seq::<u8>::empty());
                    assert(absorb(sb, offset as int, r as int, rest) == (xor_at(sb, offset as int, rest), offset + rest.len()));
                }
                break;
            }

            self.offset = 0;
            keccak_f(&mut self.state);
            proof {
                assert(data@.subrange(in_pos as int, in_len as int) =~= rest.subrange(nread as int, rest.len() as int));
            }
        }
    }
}
} // verus!
fn main() {}
