use vstd::prelude::*;
verus! {

pub uninterp spec fn H(id: int, m: Seq<u8>) -> Seq<u8>;

pub trait Digest {
    spec fn alg(&self) -> int;           // which hash function
    spec fn fed(&self) -> Seq<u8>;       // bytes since last reset
    spec fn os(&self) -> nat;
    spec fn bs(&self) -> nat;

    fn input(&mut self, input: &[u8])
        ensures final(self).fed() == old(self).fed() + input@,
                final(self).alg() == old(self).alg(), final(self).os() == old(self).os(), final(self).bs() == old(self).bs();

    fn result(&mut self, out: &mut [u8])
        requires old(out).len() == old(self).os()
        ensures final(out)@ == H(old(self).alg(), old(self).fed()), final(out).len() == old(out).len(),
                final(self).alg() == old(self).alg(), final(self).os() == old(self).os(), final(self).bs() == old(self).bs();

    fn reset(&mut self)
        ensures final(self).fed() == Seq::<u8>::empty(),
                final(self).alg() == old(self).alg(), final(self).os() == old(self).os(), final(self).bs() == old(self).bs();
}

pub struct Hmac<D> {
    pub digest: D,
    pub i_key: Vec<u8>,
    pub o_key: Vec<u8>,
    pub finished: bool,
}

pub open spec fn hmac_spec(alg: int, ikey: Seq<u8>, okey: Seq<u8>, msg: Seq<u8>) -> Seq<u8> {
    H(alg, okey + H(alg, ikey + msg))
}

impl<D: Digest> Hmac<D> {
    pub open spec fn msg(&self) -> Seq<u8> recommends !self.finished {
        self.digest.fed().subrange(self.i_key@.len() as int, self.digest.fed().len() as int)
    }
    pub open spec fn wf(&self) -> bool {
        !self.finished ==> (self.digest.fed().len() >= self.i_key@.len()
            && self.digest.fed().subrange(0, self.i_key@.len() as int) == self.i_key@)
    }

    fn input(&mut self, data: &[u8])
        requires old(self).wf(), !old(self).finished
        ensures final(self).wf(), !final(self).finished, final(self).msg() == old(self).msg() + data@,
                final(self).i_key == old(self).i_key, final(self).o_key == old(self).o_key,
                final(self).digest.alg() == old(self).digest.alg(), final(self).digest.os() == old(self).digest.os(),
    {
        assert(!self.finished);
        self.digest.input(data);
        proof {
            let n = self.i_key@.len() as int;
            assert(self.digest.fed().subrange(0, n) =~= self.i_key@);
            assert(self.msg() =~= old(self).msg() + data@);
        }
    }

    fn reset(&mut self)
        ensures final(self).wf(), !final(self).finished, final(self).msg() == Seq::<u8>::empty(),
                final(self).i_key == old(self).i_key, final(self).o_key == old(self).o_key,
                final(self).digest.alg() == old(self).digest.alg(), final(self).digest.os() == old(self).digest.os(),
    {
        self.digest.reset();
        self.digest.input(&self.i_key[..]);
        self.finished = false;
        proof {
            assert(self.digest.fed() =~= self.i_key@);
            assert(self.msg() =~= Seq::<u8>::empty());
        }
    }

    fn raw_result(&mut self, output: &mut [u8])
        requires old(self).wf(), !old(self).finished, old(output).len() == old(self).digest.os()
        ensures final(output)@ == hmac_spec(old(self).digest.alg(), old(self).i_key@, old(self).o_key@, old(self).msg()),
                final(self).finished,
    {
        proof {
            let n = self.i_key@.len() as int;
            assert(self.digest.fed() =~= self.i_key@ + self.msg());
        }
        if !self.finished {
            self.digest.result(output);

            self.digest.reset();
            self.digest.input(&self.o_key[..]);
            self.digest.input(output);

            self.finished = true;
            proof {
                assert(self.digest.fed() =~= old(self).o_key@ + H(old(self).digest.alg(), old(self).i_key@ + old(self).msg()));
            }
        }

        self.digest.result(output);
    }
}
} // verus!
fn main() {}
