use vstd::prelude::*;
use vstd::bytes::*;
verus! {
pub assume_specification [u64::to_le_bytes] (x: u64) -> (r: [u8; 8])
    ensures r@ == spec_u64_to_le_bytes(x);
pub assume_specification [u32::from_le_bytes] (b: [u8; 4]) -> (r: u32)
    ensures r == spec_u32_from_le_bytes(b@);
pub uninterp spec fn be64(x: u64) -> Seq<u8>;
pub assume_specification [u64::to_be_bytes] (x: u64) -> (r: [u8; 8])
    ensures r@ == be64(x);
pub fn w(x: u64, out: &mut [u8; 32]) {
    let b = x.to_le_bytes();
    out[0] = b[0];
    let y = u32::from_le_bytes([out[0], out[1], out[2], out[3]]);
    let z = (x & 0xffff).to_be_bytes();
}
} // verus!
fn main() {}
