use vstd::prelude::*;
use vstd::slice::SliceIndexSpec;
verus! {

pub assume_specification<T, I: core::slice::SliceIndex<[T]>> [<[T]>::get_unchecked::<I>] (s: &[T], i: I) -> (r: &<I as core::slice::SliceIndex<[T]>>::Output)
    requires i.in_bounds(s)
    ensures i.index_postcondition(s, r);

fn rd(w: &[u32; 64], i: usize) -> (r: u32)
  requires i < 65
  ensures r == w[i as int]
{
    unsafe { *w.get_unchecked(i) }
}
} // verus!
fn main() {}
