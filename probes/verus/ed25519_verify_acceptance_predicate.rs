use vstd::prelude::*;
use core::convert::TryFrom;
verus! {

#[verifier::external_type_specification]
#[verifier::external_body]
pub struct ExTryFromSliceError(core::array::TryFromSliceError);
pub assume_specification<'a, T, const N: usize> [<&'a [T; N] as TryFrom<&'a [T]>>::try_from] (s: &'a [T]) -> (r: Result<&'a [T; N], core::array::TryFromSliceError>)
    ensures s@.len() == N ==> (r is Ok && r->Ok_0@ == s@), s@.len() != N ==> r is Err;

// ---- group / scalar / hash layers: contracts only ----
pub struct Ge { pub id: Ghost<int> }
pub struct GePartial { pub id: Ghost<int> }
pub struct Scalar(pub [u64; 5]);
#[derive(Clone, Copy)]
pub struct Choice(pub u64);

pub uninterp spec fn dec_point(b: Seq<u8>) -> Option<int>;          // RFC 8032 5.1.3 decoding (None if not a point); int = abstract point id (negated, as the code does)
pub uninterp spec fn le_int(b: Seq<u8>) -> int;
pub uninterp spec fn order_l() -> int;
pub uninterp spec fn sval(s: &Scalar) -> int;
pub uninterp spec fn sha512(m: Seq<u8>) -> Seq<u8>;
pub uninterp spec fn dsm_enc(a: int, pt: int, b: int) -> Seq<u8>;    // enc(a*pt + b*B)

#[verifier::external_body]
pub fn ge_from_bytes(s: &[u8; 32]) -> (r: Option<Ge>)
    ensures r is Some <==> dec_point(s@) is Some, r is Some ==> r->Some_0.id@ == dec_point(s@)->Some_0
{ unimplemented!() }
#[verifier::external_body]
pub fn scalar_from_bytes_canonical(bytes: &[u8; 32]) -> (r: Option<Scalar>)
    ensures r is Some <==> le_int(bytes@) < order_l(), r is Some ==> sval(&r->Some_0) == le_int(bytes@)
{ unimplemented!() }
#[verifier::external_body]
pub fn scalar_reduce_from_wide_bytes(s: &[u8; 64]) -> (r: Scalar)
    ensures sval(&r) == le_int(s@) % order_l()
{ unimplemented!() }
#[verifier::external_body]
pub fn double_scalarmult_vartime(a_scalar: &Scalar, a_point: Ge, b_scalar: &Scalar) -> (r: GePartial)
    ensures r.id@ == 0   // abstract; the encoding is what matters:
{ unimplemented!() }
pub uninterp spec fn partial_enc(r: &GePartial) -> Seq<u8>;
#[verifier::external_body]
pub fn dsm(a_scalar: &Scalar, a_point: Ge, b_scalar: &Scalar) -> (r: GePartial)
    ensures partial_enc(&r) == dsm_enc(sval(a_scalar), a_point.id@, sval(b_scalar))
{ unimplemented!() }
#[verifier::external_body]
pub fn partial_to_bytes(r: &GePartial) -> (o: [u8; 32]) ensures o@ == partial_enc(r) { unimplemented!() }
#[verifier::external_body]
pub fn sha512_3(a: &[u8; 32], b: &[u8; 32], m: &[u8]) -> (r: [u8; 64]) ensures r@ == sha512(a@ + b@ + m@) { unimplemented!() }
#[verifier::external_body]
pub fn ct_eq_32(a: &[u8; 32], b: &[u8; 32]) -> (r: Choice) ensures r.0 == (if a@ == b@ { 1u64 } else { 0u64 }) { unimplemented!() }

impl vstd::std_specs::convert::FromSpecImpl<Choice> for bool {
    open spec fn obeys_from_spec() -> bool { true }
    open spec fn from_spec(c: Choice) -> bool { c.0 == 1 }
}
impl From<Choice> for bool {
    fn from(c: Choice) -> (r: bool) { c.0 == 1 }
}

// RFC 8032 5.1.7 acceptance predicate as the property states it
pub open spec fn accepts(message: Seq<u8>, pk: Seq<u8>, sig: Seq<u8>) -> bool {
    let r_bytes = sig.subrange(0, 32);
    let s_bytes = sig.subrange(32, 64);
    &&& dec_point(pk) is Some
    &&& le_int(s_bytes) < order_l()
    &&& !(forall|i: int| 0 <= i < 32 ==> pk[i] == 0)
    &&& dsm_enc(le_int(sha512(r_bytes + pk + message)) % order_l(), dec_point(pk)->Some_0, le_int(s_bytes)) == r_bytes
}

proof fn lemma_or_zero(a: u8, b: u8) ensures (a | b) == 0 <==> (a == 0 && b == 0) {
    assert((a | b) == 0 <==> (a == 0 && b == 0)) by (bit_vector);
}

// body = /repo ed25519::verify with the callee names of this probe
pub fn verify(message: &[u8], public_key: &[u8; 32], signature: &[u8; 64]) -> (ok: bool)
    ensures ok == accepts(message@, public_key@, signature@)
{
    let signature_left = <&[u8; 32]>::try_from(&signature[0..32]).unwrap();
    let signature_right = <&[u8; 32]>::try_from(&signature[32..64]).unwrap();

    let a = match ge_from_bytes(public_key) {
        Some(g) => g,
        None => {
            return false;
        }
    };

    let signature_scalar = match scalar_from_bytes_canonical(signature_right) {
        None => return false,
        Some(s) => s,
    };

    // reject all-0 public keys
    let mut d = 0;
    for pk_byte in it: public_key.iter()
        invariant d == 0 <==> (forall|i: int| 0 <= i < it.index@ ==> public_key[i] == 0)
    {
        proof { lemma_or_zero(d, *pk_byte); }
        d |= *pk_byte;
    }
    if d == 0 {
        return false;
    }

    let hash = sha512_3(signature_left, public_key, message);
    let a_scalar = scalar_reduce_from_wide_bytes(&hash);

    let r = dsm(&a_scalar, a, &signature_scalar);
    let rcheck = partial_to_bytes(&r);

    ct_eq_32(&rcheck, signature_left).into()
}
} // verus!
fn main() {}
