use vstd::prelude::*;
use core::ops::{Add, Mul, Sub};
verus! {

// ---------- field layer: contracts only (proved separately: fe64_mul_full.rs, to_packed via Kani) ----------
pub struct Fe(pub [u64; 5]);
#[derive(Clone, Copy)]
pub struct Choice(pub u64);

pub open spec fn P() -> int { 0x8000000000000int * (0x40000000000000000000000000int * 0x40000000000000000000000000int) - 19 }
pub uninterp spec fn val(f: &Fe) -> int;
pub uninterp spec fn bnd(f: &Fe) -> bool;          // all limbs < 2^53
pub open spec fn fv(f: &Fe) -> int { val(f) % P() }
pub open spec fn fadd(a: int, b: int) -> int { (a + b) % P() }
pub open spec fn fsub(a: int, b: int) -> int { (a - b) % P() }
pub open spec fn fmul(a: int, b: int) -> int { (a * b) % P() }
pub uninterp spec fn finv(a: int) -> int;            // a^(p-2) mod p
pub uninterp spec fn le255(b: Seq<u8>) -> int;       // little-endian value with bit 255 cleared, mod p
pub uninterp spec fn enc(a: int) -> Seq<u8>;         // canonical 32-byte LE of a (0 <= a < p)

impl<'a> vstd::std_specs::ops::AddSpecImpl<&'a Fe> for &'a Fe {
    open spec fn obeys_add_spec() -> bool { false }
    open spec fn add_req(self, rhs: &'a Fe) -> bool { bnd(self) && bnd(rhs) }
    open spec fn add_spec(self, rhs: &'a Fe) -> Fe { arbitrary() }
}
impl<'a> vstd::std_specs::ops::SubSpecImpl<&'a Fe> for &'a Fe {
    open spec fn obeys_sub_spec() -> bool { false }
    open spec fn sub_req(self, rhs: &'a Fe) -> bool { bnd(self) && bnd(rhs) }
    open spec fn sub_spec(self, rhs: &'a Fe) -> Fe { arbitrary() }
}
impl<'a> vstd::std_specs::ops::MulSpecImpl<&'a Fe> for &'a Fe {
    open spec fn obeys_mul_spec() -> bool { false }
    open spec fn mul_req(self, rhs: &'a Fe) -> bool { bnd(self) && bnd(rhs) }
    open spec fn mul_spec(self, rhs: &'a Fe) -> Fe { arbitrary() }
}
impl Add for &Fe { type Output = Fe;
    #[verifier::external_body] fn add(self, rhs: &Fe) -> (r: Fe) ensures fv(&r) == fadd(fv(self), fv(rhs)), bnd(&r) { unimplemented!() } }
impl Sub for &Fe { type Output = Fe;
    #[verifier::external_body] fn sub(self, rhs: &Fe) -> (r: Fe) ensures fv(&r) == fsub(fv(self), fv(rhs)), bnd(&r) { unimplemented!() } }
impl Mul for &Fe { type Output = Fe;
    #[verifier::external_body] fn mul(self, rhs: &Fe) -> (r: Fe) ensures fv(&r) == fmul(fv(self), fv(rhs)), bnd(&r) { unimplemented!() } }

impl Fe {
    #[verifier::external_body] pub fn one() -> (r: Fe) ensures fv(&r) == 1, bnd(&r) { unimplemented!() }    // Fe::ONE
    #[verifier::external_body] pub fn zero() -> (r: Fe) ensures fv(&r) == 0, bnd(&r) { unimplemented!() }   // Fe::ZERO
    #[verifier::external_body] pub fn from_bytes(bytes: &[u8; 32]) -> (r: Fe) ensures fv(&r) == le255(bytes@), bnd(&r) { unimplemented!() }
    #[verifier::external_body] pub fn to_bytes(&self) -> (r: [u8; 32]) requires bnd(self) ensures r@ == enc(fv(self)) { unimplemented!() }
    #[verifier::external_body] pub fn square(&self) -> (r: Fe) requires bnd(self) ensures fv(&r) == fmul(fv(self), fv(self)), bnd(&r) { unimplemented!() }
    #[verifier::external_body] pub fn mul_small_121666(&self) -> (r: Fe) requires bnd(self) ensures fv(&r) == fmul(fv(self), 121666), bnd(&r) { unimplemented!() }
    #[verifier::external_body] pub fn invert(&self) -> (r: Fe) requires bnd(self) ensures fv(&r) == finv(fv(self)), bnd(&r) { unimplemented!() }
    #[verifier::external_body] pub fn clone(&self) -> (r: Fe) ensures fv(&r) == fv(self), bnd(&r) == bnd(self) { unimplemented!() }
    #[verifier::external_body]
    pub fn maybe_swap_with(&mut self, rhs: &mut Fe, do_swap: Choice)
        requires do_swap.0 == 0 || do_swap.0 == 1
        ensures do_swap.0 == 1 ==> (fv(final(self)) == fv(old(rhs)) && fv(final(rhs)) == fv(old(self)) && bnd(final(self)) == bnd(old(rhs)) && bnd(final(rhs)) == bnd(old(self))),
                do_swap.0 == 0 ==> (fv(final(self)) == fv(old(self)) && fv(final(rhs)) == fv(old(rhs)) && bnd(final(self)) == bnd(old(self)) && bnd(final(rhs)) == bnd(old(rhs)))
    { unimplemented!() }
}
#[verifier::external_body] fn ct_zero_u64(x: u64) -> (r: Choice) ensures r.0 == (if x == 0 { 1u64 } else { 0u64 }) { unimplemented!() }
#[verifier::external_body] fn ct_nonzero_u8(x: u8) -> (r: Choice) ensures r.0 == (if x == 0 { 0u64 } else { 1u64 }) { unimplemented!() }
#[verifier::external_body] fn choice_xor(a: Choice, b: Choice) -> (r: Choice) ensures r.0 == a.0 ^ b.0 { unimplemented!() }

// ---------- RFC 7748 section 5, literally ----------
pub struct St { pub x2: int, pub z2: int, pub x3: int, pub z3: int, pub swap: int }
pub open spec fn cswap(sw: int, a: int, b: int) -> (int, int) { if sw == 1 { (b, a) } else { (a, b) } }
pub open spec fn kbit(k: Seq<u8>, t: int) -> int { ((k[t / 8] as int) / pow2(t % 8)) % 2 }
pub open spec fn pow2(n: int) -> int decreases n { if n <= 0 { 1 } else { 2 * pow2(n - 1) } }
pub open spec fn step(x1: int, s: St, kt: int) -> St {
    let sw = if s.swap == kt { 0int } else { 1int };      // swap ^= k_t
    let (x2, x3) = cswap(sw, s.x2, s.x3);
    let (z2, z3) = cswap(sw, s.z2, s.z3);
    let a = fadd(x2, z2);
    let aa = fmul(a, a);
    let b = fsub(x2, z2);
    let bb = fmul(b, b);
    let e = fsub(aa, bb);
    let c = fadd(x3, z3);
    let d = fsub(x3, z3);
    let da = fmul(d, a);
    let cb = fmul(c, b);
    let t0 = fadd(da, cb);
    let t1 = fsub(da, cb);
    St { x3: fmul(t0, t0), z3: fmul(x1, fmul(t1, t1)), x2: fmul(aa, bb),
         z2: fmul(e, fadd(bb, fmul(e, 121666))),       // == E*(AA + a24*E), bridged by a spec lemma (not in this probe)
         swap: kt }
}
// state after processing bits 254 down to t (inclusive); ladder(.., 255) is the initial state
pub open spec fn ladder(x1: int, k: Seq<u8>, t: int) -> St
    decreases 255 - t
{
    if t >= 255 { St { x2: 1, z2: 0, x3: x1, z3: 1, swap: 0 } }
    else { step(x1, ladder(x1, k, t + 1), kbit(k, t)) }
}
pub open spec fn clamp(n: Seq<u8>) -> Seq<u8> {
    n.update(0, n[0] & 0xf8).update(31, (n[31] & 0x7f) | 0x40)
}
pub open spec fn x25519(n: Seq<u8>, u: Seq<u8>) -> Seq<u8> {
    let s = ladder(le255(u), clamp(n), 0);
    let (x2, _x3) = cswap(s.swap, s.x2, s.x3);
    let (z2, _z3) = cswap(s.swap, s.z2, s.z3);
    enc(fmul(finv(z2), x2))
}

proof fn lemma_bit(b: u8, p: usize)
    requires p < 8
    ensures (((b >> p) & 1) as int) == ((b as int) / pow2(p as int)) % 2, ((b >> p) & 1) == 0 || ((b >> p) & 1) == 1
{
    assert(((b >> p) & 1) == 0 || ((b >> p) & 1) == 1) by (bit_vector) requires p < 8;
    assert(pow2(0) == 1 && pow2(1) == 2 && pow2(2) == 4 && pow2(3) == 8 && pow2(4) == 16 && pow2(5) == 32 && pow2(6) == 64 && pow2(7) == 128) by {
        reveal_with_fuel(pow2, 9);
    }
    if p == 0 { assert(((b >> 0usize) & 1) as int == (b as int / 1) % 2) by (bit_vector); }
    else if p == 1 { assert(((b >> 1usize) & 1) as int == (b as int / 2) % 2) by (bit_vector); }
    else if p == 2 { assert(((b >> 2usize) & 1) as int == (b as int / 4) % 2) by (bit_vector); }
    else if p == 3 { assert(((b >> 3usize) & 1) as int == (b as int / 8) % 2) by (bit_vector); }
    else if p == 4 { assert(((b >> 4usize) & 1) as int == (b as int / 16) % 2) by (bit_vector); }
    else if p == 5 { assert(((b >> 5usize) & 1) as int == (b as int / 32) % 2) by (bit_vector); }
    else if p == 6 { assert(((b >> 6usize) & 1) as int == (b as int / 64) % 2) by (bit_vector); }
    else { assert(((b >> 7usize) & 1) as int == (b as int / 128) % 2) by (bit_vector); }
}

// body = /repo curve25519::curve25519 after X9 (operators), with `Fe::ONE`/`Fe::ZERO` consts and the
// ct trait calls written through the stubs above (probe only; the unit uses the real items)
pub fn curve25519(n: &[u8; 32], p: &[u8; 32]) -> (out: [u8; 32])
    ensures out@ == x25519(n@, p@)
{
    let mut e: [u8; 32] = *n;

    // clear the lowest 3 bits, clear the highest bit and set the 2nd highest bit
    e[0] &= 0b1111_1000;
    e[31] &= 0b0111_1111;
    e[31] |= 0b1000000;
    proof { assert(e@ =~= clamp(n@)); }

    let x1 = Fe::from_bytes(p);
    let mut x2 = Fe::one();
    let mut z2 = Fe::zero();
    let mut x3 = x1.clone();
    let mut z3 = Fe::one();

    let mut swap = ct_zero_u64(1u64);
    let ghost k = e@;
    let ghost u1 = fv(&x1);
    // pos starts at 254 and goes down to 0
    for pos in it: (0usize..255).rev()
        invariant
            e@ == k, fv(&x1) == u1, bnd(&x1), bnd(&x2), bnd(&z2), bnd(&x3), bnd(&z3),
            swap.0 == 0 || swap.0 == 1,
            ({ let s = ladder(u1, k, 255 - it.index@);
               fv(&x2) == s.x2 && fv(&z2) == s.z2 && fv(&x3) == s.x3 && fv(&z3) == s.z3 && swap.0 as int == s.swap }),
    {
        proof {
            assert(pos & 7 == pos % 8) by (bit_vector);
            assert((pos & 7) < 8) by (bit_vector);
            lemma_bit(e[(pos / 8) as int], pos & 7);
            assert(pos == 254 - it.index@);
        }
        let b = ct_nonzero_u8((e[pos / 8] >> (pos & 7)) & 1);
        proof {
            let sw = swap.0; let bb = b.0;
            assert((sw == 0 || sw == 1) && (bb == 0 || bb == 1) ==> ((sw ^ bb) == 0 || (sw ^ bb) == 1) && ((sw ^ bb) == 1 <==> sw != bb)) by (bit_vector);
            assert(b.0 as int == kbit(k, pos as int));
        }
        x2.maybe_swap_with(&mut x3, choice_xor(swap, b));
        z2.maybe_swap_with(&mut z3, choice_xor(swap, b));
        swap = b;

        let d = (&x3).sub(&z3);
        let b = (&x2).sub(&z2);
        let a = (&x2).add(&z2);
        let c = (&x3).add(&z3);
        let da = (&d).mul(&a);
        let cb = (&c).mul(&b);
        let bb = b.square();
        let aa = a.square();
        let t0 = (&da).add(&cb);
        let t1 = (&da).sub(&cb);
        let x4 = (&aa).mul(&bb);
        let e = (&aa).sub(&bb);
        let t2 = t1.square();
        let t3 = e.mul_small_121666();
        let x5 = t0.square();
        let t4 = (&bb).add(&t3);
        let z5 = (&x1).mul(&t2);
        let z4 = (&e).mul(&t4);

        z2 = z4;
        z3 = z5;
        x2 = x4;
        x3 = x5;
    }
    x2.maybe_swap_with(&mut x3, swap);
    z2.maybe_swap_with(&mut z3, swap);

    (&z2.invert()).mul(&x2).to_bytes()
}
} // verus!
fn main() {}
