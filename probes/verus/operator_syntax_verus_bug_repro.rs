use vstd::prelude::*;
use core::ops::Sub;
verus! {
pub struct Fe(pub [u64; 5]);
pub uninterp spec fn fv(f: &Fe) -> int;
pub uninterp spec fn bnd(f: &Fe) -> bool;

impl<'a> vstd::std_specs::ops::SubSpecImpl<&'a Fe> for &'a Fe {
    open spec fn obeys_sub_spec() -> bool { false }
    open spec fn sub_req(self, rhs: &'a Fe) -> bool { bnd(self) && bnd(rhs) }
    open spec fn sub_spec(self, rhs: &'a Fe) -> Fe { arbitrary() }
}
impl Sub for &Fe {
    type Output = Fe;
    #[verifier::external_body]
    fn sub(self, rhs: &Fe) -> (r: Fe)
        ensures fv(&r) == fv(self) - fv(rhs), bnd(&r)
    { unimplemented!() }
}
pub fn t1(a: Fe, b: Fe) -> (r: Fe)
    requires bnd(&a), bnd(&b)
    ensures fv(&r) == fv(&a) - fv(&b)
{
    let d = &a - &b;
    d
}
} // verus!
fn main() {}
