use vstd::prelude::*;
verus! {

pub uninterp spec fn H(alg: int, m: Seq<u8>) -> Seq<u8>;

// Digest contract with the residual view: cont(self)(s) = digest if `s` is still fed
pub trait Digest {
    spec fn alg(&self) -> int;
    spec fn os(&self) -> nat;
    spec fn cont(&self) -> spec_fn(Seq<u8>) -> Seq<u8>;

    fn input(&mut self, input: &[u8])
        ensures forall|s: Seq<u8>| #[trigger] (final(self).cont())(s) == (old(self).cont())(input@ + s),
                final(self).alg() == old(self).alg(), final(self).os() == old(self).os();

    fn result(&mut self, out: &mut [u8])
        requires old(out).len() == old(self).os()
        ensures final(out)@ == (old(self).cont())(Seq::<u8>::empty()), final(out).len() == old(out).len(),
                final(self).alg() == old(self).alg(), final(self).os() == old(self).os();

    fn reset(&mut self)
        ensures forall|s: Seq<u8>| #[trigger] (final(self).cont())(s) == H(old(self).alg(), s),
                final(self).alg() == old(self).alg(), final(self).os() == old(self).os();
}

pub struct Hmac<D> { pub digest: D, pub i_key: Vec<u8>, pub o_key: Vec<u8>, pub finished: bool }

pub open spec fn hmac_spec(alg: int, ikey: Seq<u8>, okey: Seq<u8>, msg: Seq<u8>) -> Seq<u8> {
    H(alg, okey + H(alg, ikey + msg))
}

impl<D: Digest> Hmac<D> {
    // residual view of the MAC object, *derived* from the digest's residual view
    pub open spec fn cont(&self) -> spec_fn(Seq<u8>) -> Seq<u8> {
        |s: Seq<u8>| H(self.digest.alg(), self.o_key@ + (self.digest.cont())(s))
    }
    // a fresh Hmac with these keys
    pub open spec fn fresh(alg: int, ikey: Seq<u8>, okey: Seq<u8>) -> spec_fn(Seq<u8>) -> Seq<u8> {
        |s: Seq<u8>| hmac_spec(alg, ikey, okey, s)
    }

    fn input(&mut self, data: &[u8])
        requires !old(self).finished
        ensures !final(self).finished, forall|s: Seq<u8>| #[trigger] (final(self).cont())(s) == (old(self).cont())(data@ + s),
                final(self).i_key == old(self).i_key, final(self).o_key == old(self).o_key, final(self).digest.alg() == old(self).digest.alg(),
    {
        assert(!self.finished);
        self.digest.input(data);
    }

    fn reset(&mut self)
        ensures !final(self).finished,
                forall|s: Seq<u8>| #[trigger] (final(self).cont())(s) == Self::fresh(old(self).digest.alg(), old(self).i_key@, old(self).o_key@)(s),
                final(self).i_key == old(self).i_key, final(self).o_key == old(self).o_key, final(self).digest.alg() == old(self).digest.alg(),
    {
        self.digest.reset();
        let ghost d1 = self.digest.cont();
        self.digest.input(&self.i_key[..]);
        self.finished = false;
        proof {

            assert forall|s: Seq<u8>| #[trigger] (self.cont())(s) == Self::fresh(old(self).digest.alg(), old(self).i_key@, old(self).o_key@)(s) by {
                assert(self.i_key@.subrange(0, self.i_key@.len() as int) =~= self.i_key@);
                assert((self.digest.cont())(s) == d1(self.i_key@ + s));
            }
        }
    }

    fn raw_result(&mut self, output: &mut [u8])
        requires !old(self).finished, old(output).len() == old(self).digest.os()
        ensures final(output)@ == (old(self).cont())(Seq::<u8>::empty()), final(self).finished,
    {
        if !self.finished {
            self.digest.result(output);

            let ghost inner = output@;
            self.digest.reset();
            let ghost d1 = self.digest.cont();
            self.digest.input(&self.o_key[..]);
            let ghost d2 = self.digest.cont();
            self.digest.input(output);

            self.finished = true;
            proof {
                let e = Seq::<u8>::empty();

                assert((self.digest.cont())(e) == d2(inner + e));
                assert(self.o_key@.subrange(0, self.o_key@.len() as int) =~= self.o_key@);
                assert(d2(inner + e) == d1(self.o_key@ + (inner + e)));
                assert(self.o_key@ + (inner + e) =~= self.o_key@ + inner);
                assert(inner == (old(self).digest.cont())(e));
            }
        }

        self.digest.result(output);
    }
}
} // verus!
fn main() {}
