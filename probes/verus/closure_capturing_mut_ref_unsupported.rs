use vstd::prelude::*;
verus! {
pub struct FB { pub buf: [u8; 4], pub idx: usize }
impl FB {
    pub fn input<F: FnMut(&[u8])>(&mut self, input: &[u8], mut func: F)
        requires old(self).idx < 4
    {
        if input.len() >= 4 {
            func(&input[0..4]);
        }
    }
}
fn blk(d: &[u8], h: &mut [u32; 2]) { }
pub struct C { pub h: [u32; 2], pub b: FB }
impl C {
    pub fn update_mut(&mut self, msg: &[u8])
        requires old(self).b.idx < 4
    {
        let st_h = &mut self.h;
        self.b.input(msg, |d: &[u8]| { blk(d, &mut *st_h); });
    }
}
}
fn main() {}
