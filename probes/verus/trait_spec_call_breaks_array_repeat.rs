use vstd::prelude::*;
verus!{
pub struct P { pub h: [u32; 5], pub l: usize }
pub trait M { spec fn c(&self, s: Seq<u8>) -> Seq<u8>; fn reset(&mut self) ensures final(self).c(Seq::empty()) == Seq::<u8>::empty(); }
impl M for P {
    open spec fn c(&self, s: Seq<u8>) -> Seq<u8> { if self.h[0] == 0 { s } else { s.push(1u8) } }
    fn reset(&mut self) {
        self.h = [0u32; 5];
        self.l = 0;
        proof { assert(self.h[0] == 0); }
    }
}

}
fn main(){}
pub open spec fn fed(mac: &P, m: Seq<u8>) -> bool { mac.c(m) == m }  // add inside verus!{} to reproduce: reset then fails
