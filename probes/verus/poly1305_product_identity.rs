use vstd::prelude::*;
verus! {

pub open spec fn K1() -> int { 0x4000000 }                         // 2^26
pub open spec fn K2() -> int { 0x10000000000000 }                  // 2^52
pub open spec fn K3() -> int { 0x40000000000000000000 }            // 2^78
pub open spec fn K4() -> int { 0x100000000000000000000000000 }     // 2^104
pub open spec fn P1305() -> int { 0x4000000int * 0x100000000000000000000000000int - 5 }   // 2^130 - 5
pub open spec fn lv(h0: int, h1: int, h2: int, h3: int, h4: int) -> int {
    h0 + h1 * K1() + h2 * K2() + h3 * K3() + h4 * K4()
}

// (1) distributivity: one row at a time, small nonlinear queries
proof fn lemma_row(a: int, r0: int, r1: int, r2: int, r3: int, r4: int)
    ensures a * lv(r0,r1,r2,r3,r4) == a*r0 + (a*r1) * K1() + (a*r2) * K2() + (a*r3) * K3() + (a*r4) * K4()
{
    assert(a * (r0 + r1 * 0x4000000 + r2 * 0x10000000000000 + r3 * 0x40000000000000000000 + r4 * 0x100000000000000000000000000)
        == a*r0 + (a*r1) * 0x4000000 + (a*r2) * 0x10000000000000 + (a*r3) * 0x40000000000000000000 + (a*r4) * 0x100000000000000000000000000) by (nonlinear_arith);
}

// (2) the reduction identity is LINEAR in the 25 partial products
proof fn lemma_linear(
    p00: int, p01: int, p02: int, p03: int, p04: int,
    p10: int, p11: int, p12: int, p13: int, p14: int,
    p20: int, p21: int, p22: int, p23: int, p24: int,
    p30: int, p31: int, p32: int, p33: int, p34: int,
    p40: int, p41: int, p42: int, p43: int, p44: int)
    ensures ({
        let full = lv(p00,p01,p02,p03,p04) + lv(p10,p11,p12,p13,p14) * K1() + lv(p20,p21,p22,p23,p24) * K2()
                 + lv(p30,p31,p32,p33,p34) * K3() + lv(p40,p41,p42,p43,p44) * K4();
        let d0 = p00 + 5*p14 + 5*p23 + 5*p32 + 5*p41;
        let d1 = p01 + p10 + 5*p24 + 5*p33 + 5*p42;
        let d2 = p02 + p11 + p20 + 5*p34 + 5*p43;
        let d3 = p03 + p12 + p21 + p30 + 5*p44;
        let d4 = p04 + p13 + p22 + p31 + p40;
        let q = p14 + p23 + p32 + p41 + (p24 + p33 + p42) * K1() + (p34 + p43) * K2() + p44 * K3();
        full == lv(d0,d1,d2,d3,d4) + q * P1305()
    })
{
    let full = lv(p00,p01,p02,p03,p04) + lv(p10,p11,p12,p13,p14) * K1() + lv(p20,p21,p22,p23,p24) * K2()
             + lv(p30,p31,p32,p33,p34) * K3() + lv(p40,p41,p42,p43,p44) * K4();
    let d0 = p00 + 5*p14 + 5*p23 + 5*p32 + 5*p41;
    let d1 = p01 + p10 + 5*p24 + 5*p33 + 5*p42;
    let d2 = p02 + p11 + p20 + 5*p34 + 5*p43;
    let d3 = p03 + p12 + p21 + p30 + 5*p44;
    let d4 = p04 + p13 + p22 + p31 + p40;
    let q = p14 + p23 + p32 + p41 + (p24 + p33 + p42) * K1() + (p34 + p43) * K2() + p44 * K3();
    assert(full == lv(d0,d1,d2,d3,d4) + q * P1305()) by (nonlinear_arith)
        requires
            full == (p00 + p01 * 0x4000000 + p02 * 0x10000000000000 + p03 * 0x40000000000000000000 + p04 * 0x100000000000000000000000000)
                  + (p10 + p11 * 0x4000000 + p12 * 0x10000000000000 + p13 * 0x40000000000000000000 + p14 * 0x100000000000000000000000000) * 0x4000000
                  + (p20 + p21 * 0x4000000 + p22 * 0x10000000000000 + p23 * 0x40000000000000000000 + p24 * 0x100000000000000000000000000) * 0x10000000000000
                  + (p30 + p31 * 0x4000000 + p32 * 0x10000000000000 + p33 * 0x40000000000000000000 + p34 * 0x100000000000000000000000000) * 0x40000000000000000000
                  + (p40 + p41 * 0x4000000 + p42 * 0x10000000000000 + p43 * 0x40000000000000000000 + p44 * 0x100000000000000000000000000) * 0x100000000000000000000000000,
            lv(d0,d1,d2,d3,d4) == d0 + d1 * 0x4000000 + d2 * 0x10000000000000 + d3 * 0x40000000000000000000 + d4 * 0x100000000000000000000000000,
            d0 == p00 + 5*p14 + 5*p23 + 5*p32 + 5*p41,
            d1 == p01 + p10 + 5*p24 + 5*p33 + 5*p42,
            d2 == p02 + p11 + p20 + 5*p34 + 5*p43,
            d3 == p03 + p12 + p21 + p30 + 5*p44,
            d4 == p04 + p13 + p22 + p31 + p40,
            q == p14 + p23 + p32 + p41 + (p24 + p33 + p42) * 0x4000000 + (p34 + p43) * 0x10000000000000 + p44 * 0x40000000000000000000,
            P1305() == 0x4000000int * 0x100000000000000000000000000int - 5;
}
} // verus!
fn main() {}
