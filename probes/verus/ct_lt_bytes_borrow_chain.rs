use vstd::prelude::*;
verus! {
#[derive(Clone, Copy)]
pub struct Choice(pub u64);

pub assume_specification [u64::wrapping_neg] (x: u64) -> (r: u64)
    ensures r == sub(0u64, x);

// value of bytes s[k..N) read as a big-endian number whose least significant byte is s[N-1]
pub open spec fn be_tail(s: Seq<u8>, k: int) -> int
    decreases s.len() - k
{
    if k >= s.len() { 0 } else { s[k] as int * pow256(s.len() - 1 - k) + be_tail(s, k + 1) }
}
pub open spec fn pow256(n: int) -> int decreases n { if n <= 0 { 1 } else { 256 * pow256(n - 1) } }

proof fn lemma_pow256_pos(n: int) ensures pow256(n) >= 1 decreases n { if n > 0 { lemma_pow256_pos(n - 1); } }
proof fn lemma_tail_bound(s: Seq<u8>, k: int)
    requires 0 <= k <= s.len()
    ensures 0 <= be_tail(s, k) < pow256(s.len() - k)
    decreases s.len() - k
{
    if k < s.len() {
        lemma_tail_bound(s, k + 1);
        lemma_pow256_pos(s.len() - 1 - k);
        assert(pow256(s.len() - k) == 256 * pow256(s.len() - k - 1));
        assert(s[k] as int * pow256(s.len() - 1 - k) <= 255 * pow256(s.len() - 1 - k)) by (nonlinear_arith)
            requires 0 <= s[k] as int <= 255, pow256(s.len() - 1 - k) >= 1;
    }
}

proof fn lemma_step(x: u8, y: u8, borrow: u8)
    requires borrow == 0 || borrow == 1
    ensures ({
        let x1: i16 = ((x as i16) - (borrow as i16) - (y as i16)) as i16;
        let x2: i8 = (x1 >> 8) as i8;
        let nb: u8 = (0i8 - x2) as u8;
        (nb == 0 || nb == 1) && (nb == 1 <==> (x as int) - (borrow as int) < (y as int))
    })
{
    let x1: i16 = ((x as i16) - (borrow as i16) - (y as i16)) as i16;
    assert(-256 <= x1 <= 255);
    let x2: i8 = (x1 >> 8) as i8;
    assert(x1 >= 0 ==> (x1 >> 8) == 0i16) by (bit_vector) requires -256 <= x1 <= 255;
    assert(x1 < 0 ==> (x1 >> 8) == -1i16) by (bit_vector) requires -256 <= x1 <= 255;
}

// body = /repo constant_time.rs `impl CtLesser for &[u8; N] :: ct_lt`, verbatim
pub fn ct_lt<const N: usize>(a: &[u8; N], b: &[u8; N]) -> (r: Choice)
    ensures r.0 == (if be_tail(a@, 0) < be_tail(b@, 0) { 1u64 } else { 0u64 })
{
        let mut borrow = 0u8;
        for (x, y) in it: a.iter().rev().zip(b.iter().rev())
            invariant
                borrow == 0 || borrow == 1,
                0 <= it.index@ <= N,
                // after processing the low `index` bytes: borrow <=> low part of a < low part of b
                (borrow == 1) <==> (be_tail(a@, N - it.index@) < be_tail(b@, N - it.index@)),
        {
            proof {
                lemma_step(*x, *y, borrow);
                let k = N - it.index@ - 1;
                assert(*x == a@[k] && *y == b@[k]);
                lemma_tail_bound(a@, k + 1); lemma_tail_bound(b@, k + 1);
                assert(pow256(N - 1 - k) == pow256(N - (k + 1)));
                // a[k]*W + ta < b[k]*W + tb  <=>  a[k] - (ta < tb) < b[k]      with 0 <= ta,tb < W
                let w = pow256(N - 1 - k); let ta = be_tail(a@, k + 1); let tb = be_tail(b@, k + 1);
                let xa = a@[k] as int; let yb = b@[k] as int; let bw = borrow as int;
                assert((xa * w + ta < yb * w + tb) <==> (xa - bw < yb)) by (nonlinear_arith)
                    requires 0 <= ta < w, 0 <= tb < w, (bw == 1) <==> (ta < tb), bw == 0 || bw == 1, 0 <= xa <= 255, 0 <= yb <= 255;
            }
            let x1: i16 = ((*x as i16) - (borrow as i16)) - (*y as i16);
            let x2: i8 = (x1 >> 8) as i8;
            borrow = (0x0 - x2) as u8;
        }
        let borrow = borrow as u64;
        proof {
            assert(((borrow | sub(0u64, borrow)) >> 63) == borrow) by (bit_vector) requires borrow == 0 || borrow == 1;
        }
        Choice((borrow | borrow.wrapping_neg()) >> 63)
}
} // verus!
fn main() {}
