use vstd::prelude::*;
verus! {
pub open spec fn rotl32(x: u32, n: u32) -> u32 { (x << n) | (x >> ((32 - n) as u32)) }
pub assume_specification [u32::rotate_left] (x: u32, n: u32) -> (r: u32)
    requires 0 < n < 32
    ensures r == rotl32(x, n);
pub open spec fn add32(a: u32, b: u32) -> u32 { a.wrapping_add(b) }
// RFC 8439 2.1 quarter round on indices (a,b,c,d) of a 16-word state
pub open spec fn qr(s: Seq<u32>, a: int, b: int, c: int, d: int) -> Seq<u32> {
    let a1 = add32(s[a], s[b]); let d1 = rotl32(s[d] ^ a1, 16);
    let c1 = add32(s[c], d1);   let b1 = rotl32(s[b] ^ c1, 12);
    let a2 = add32(a1, b1);     let d2 = rotl32(d1 ^ a2, 8);
    let c2 = add32(c1, d2);     let b2 = rotl32(b1 ^ c2, 7);
    s.update(a, a2).update(b, b2).update(c, c2).update(d, d2)
}
// RFC 8439 2.3: column round then diagonal round
pub open spec fn dround(s: Seq<u32>) -> Seq<u32> {
    let s1 = qr(qr(qr(qr(s, 0, 4, 8, 12), 1, 5, 9, 13), 2, 6, 10, 14), 3, 7, 11, 15);
    qr(qr(qr(qr(s1, 0, 5, 10, 15), 1, 6, 11, 12), 2, 7, 8, 13), 3, 4, 9, 14)
}
pub open spec fn drounds(s: Seq<u32>, n: int) -> Seq<u32> decreases n { if n <= 0 { s } else { dround(drounds(s, n - 1)) } }

pub struct State<const ROUNDS: usize> { pub state: [u32; 16] }
impl<const ROUNDS: usize> State<ROUNDS> {
    pub fn rounds(&mut self)
        requires ROUNDS == 8 || ROUNDS == 12 || ROUNDS == 20
        ensures final(self).state@ == drounds(old(self).state@, (ROUNDS / 2) as int)
    {
        let ghost s0 = self.state@;
                let mut x0 = self.state[0]; let mut x1 = self.state[1]; let mut x2 = self.state[2]; let mut x3 = self.state[3]; let mut x4 = self.state[4]; let mut x5 = self.state[5]; let mut x6 = self.state[6]; let mut x7 = self.state[7]; let mut x8 = self.state[8]; let mut x9 = self.state[9]; let mut x10 = self.state[10]; let mut x11 = self.state[11]; let mut x12 = self.state[12]; let mut x13 = self.state[13]; let mut x14 = self.state[14]; let mut x15 = self.state[15]; 
                for n in it: 0..(ROUNDS / 2)
                    invariant s0.len() == 16, seq![x0, x1, x2, x3, x4, x5, x6, x7, x8, x9, x10, x11, x12, x13, x14, x15] == drounds(s0, n as int)
                {
                    let ghost st = seq![x0, x1, x2, x3, x4, x5, x6, x7, x8, x9, x10, x11, x12, x13, x14, x15];
                    proof { reveal_with_fuel(drounds, 2); }
                    x0 = x0.wrapping_add(x4);
                    x12 = (x12 ^ x0).rotate_left(16);
                    x8 = x8.wrapping_add(x12);
                    x4 = (x4 ^ x8).rotate_left(12);
                    x0 = x0.wrapping_add(x4);
                    x12 = (x12 ^ x0).rotate_left(8);
                    x8 = x8.wrapping_add(x12);
                    x4 = (x4 ^ x8).rotate_left(7);
                    ;
                    x1 = x1.wrapping_add(x5);
                    x13 = (x13 ^ x1).rotate_left(16);
                    x9 = x9.wrapping_add(x13);
                    x5 = (x5 ^ x9).rotate_left(12);
                    x1 = x1.wrapping_add(x5);
                    x13 = (x13 ^ x1).rotate_left(8);
                    x9 = x9.wrapping_add(x13);
                    x5 = (x5 ^ x9).rotate_left(7);
                    ;
                    x2 = x2.wrapping_add(x6);
                    x14 = (x14 ^ x2).rotate_left(16);
                    x10 = x10.wrapping_add(x14);
                    x6 = (x6 ^ x10).rotate_left(12);
                    x2 = x2.wrapping_add(x6);
                    x14 = (x14 ^ x2).rotate_left(8);
                    x10 = x10.wrapping_add(x14);
                    x6 = (x6 ^ x10).rotate_left(7);
                    ;
                    x3 = x3.wrapping_add(x7);
                    x15 = (x15 ^ x3).rotate_left(16);
                    x11 = x11.wrapping_add(x15);
                    x7 = (x7 ^ x11).rotate_left(12);
                    x3 = x3.wrapping_add(x7);
                    x15 = (x15 ^ x3).rotate_left(8);
                    x11 = x11.wrapping_add(x15);
                    x7 = (x7 ^ x11).rotate_left(7);
                    ;
                    x0 = x0.wrapping_add(x5);
                    x15 = (x15 ^ x0).rotate_left(16);
                    x10 = x10.wrapping_add(x15);
                    x5 = (x5 ^ x10).rotate_left(12);
                    x0 = x0.wrapping_add(x5);
                    x15 = (x15 ^ x0).rotate_left(8);
                    x10 = x10.wrapping_add(x15);
                    x5 = (x5 ^ x10).rotate_left(7);
                    ;
                    x1 = x1.wrapping_add(x6);
                    x12 = (x12 ^ x1).rotate_left(16);
                    x11 = x11.wrapping_add(x12);
                    x6 = (x6 ^ x11).rotate_left(12);
                    x1 = x1.wrapping_add(x6);
                    x12 = (x12 ^ x1).rotate_left(8);
                    x11 = x11.wrapping_add(x12);
                    x6 = (x6 ^ x11).rotate_left(7);
                    ;
                    x2 = x2.wrapping_add(x7);
                    x13 = (x13 ^ x2).rotate_left(16);
                    x8 = x8.wrapping_add(x13);
                    x7 = (x7 ^ x8).rotate_left(12);
                    x2 = x2.wrapping_add(x7);
                    x13 = (x13 ^ x2).rotate_left(8);
                    x8 = x8.wrapping_add(x13);
                    x7 = (x7 ^ x8).rotate_left(7);
                    ;
                    x3 = x3.wrapping_add(x4);
                    x14 = (x14 ^ x3).rotate_left(16);
                    x9 = x9.wrapping_add(x14);
                    x4 = (x4 ^ x9).rotate_left(12);
                    x3 = x3.wrapping_add(x4);
                    x14 = (x14 ^ x3).rotate_left(8);
                    x9 = x9.wrapping_add(x14);
                    x4 = (x4 ^ x9).rotate_left(7);
                    ;
                    proof { assert(seq![x0, x1, x2, x3, x4, x5, x6, x7, x8, x9, x10, x11, x12, x13, x14, x15] =~= dround(st)); }
                }
                self.state =
                    [x0, x1, x2, x3, x4, x5, x6, x7, x8, x9, x10, x11, x12, x13,
                            x14, x15];
            }
}
} // verus!
fn main() {}
