use vstd::prelude::*;
verus! {

// ---------- callee contracts (C04 cipher view, C05/C09 MAC residual view) ----------
pub uninterp spec fn ks(key: Seq<u8>, nonce: Seq<u8>, pos: int) -> u8;          // keystream byte at absolute position
pub uninterp spec fn poly(otk: Seq<u8>, msg: Seq<u8>) -> Seq<u8>;               // RFC 8439 2.5
pub broadcast proof fn poly_len(k: Seq<u8>, m: Seq<u8>) ensures #[trigger] poly(k, m).len() == 16 { admit(); }

pub struct ChaCha { pub key: Ghost<Seq<u8>>, pub nonce: Ghost<Seq<u8>>, pub pos: Ghost<int> }
impl ChaCha {
    #[verifier::external_body]
    pub fn process_mut(&mut self, data: &mut [u8])
        ensures final(self).key == old(self).key, final(self).nonce == old(self).nonce, final(self).pos@ == old(self).pos@ + old(data).len(),
                final(data).len() == old(data).len(),
                forall|k: int| 0 <= k < old(data).len() ==> #[trigger] final(data)[k] == old(data)[k] ^ ks(old(self).key@, old(self).nonce@, old(self).pos@ + k)
    { unimplemented!() }
    #[verifier::external_body]
    pub fn process(&mut self, input: &[u8], output: &mut [u8])
        requires input.len() == old(output).len()
        ensures final(self).key == old(self).key, final(self).nonce == old(self).nonce, final(self).pos@ == old(self).pos@ + input.len(),
                final(output).len() == old(output).len(),
                forall|k: int| 0 <= k < input.len() ==> #[trigger] final(output)[k] == input[k] ^ ks(old(self).key@, old(self).nonce@, old(self).pos@ + k)
    { unimplemented!() }
}
pub struct Poly1305 { pub otk: Ghost<Seq<u8>>, pub fed: Ghost<Seq<u8>>, pub done: Ghost<bool> }
impl Poly1305 {
    #[verifier::external_body]
    pub fn input(&mut self, data: &[u8])
        requires !old(self).done@
        ensures final(self).otk == old(self).otk, final(self).fed@ == old(self).fed@ + data@, !final(self).done@
    { unimplemented!() }
    #[verifier::external_body]
    pub fn raw_result(&mut self, output: &mut [u8])
        requires old(output).len() >= 16
        ensures final(output)@.subrange(0, 16) == poly(old(self).otk@, old(self).fed@), final(output).len() == old(output).len()
    { unimplemented!() }
}
pub uninterp spec fn le64(x: u64) -> Seq<u8>;
#[verifier::external_body]
pub fn write_u64_le(dst: &mut [u8], input: u64)
    requires old(dst).len() == 8
    ensures final(dst)@ == le64(input), final(dst).len() == 8
{ unimplemented!() }

// ---------- RFC 8439 2.8 ----------
pub open spec fn zeros(n: int) -> Seq<u8> { Seq::new(n as nat, |i: int| 0u8) }
pub open spec fn pad16_spec(n: int) -> Seq<u8> { zeros((16 - n % 16) % 16) }
pub open spec fn mac_data(aad: Seq<u8>, ct: Seq<u8>) -> Seq<u8> {
    aad + pad16_spec(aad.len() as int) + ct + pad16_spec(ct.len() as int) + le64(aad.len() as u64) + le64(ct.len() as u64)
}

pub struct Context {
    pub cipher: ChaCha,
    pub mac: Poly1305,
    pub aad_len: u64,
    pub data_len: u64,
}
impl Context {
    // phase 2 (after to_encryption/to_decryption): mac has absorbed aad ++ pad ++ ct-so-far
    pub open spec fn wf2(&self, aad: Seq<u8>, ct: Seq<u8>) -> bool {
        &&& !self.mac.done@
        &&& self.aad_len as int == aad.len() && self.data_len as int == ct.len()
        &&& self.mac.fed@ == aad + pad16_spec(aad.len() as int) + ct
    }
}

// body = /repo chacha20poly1305.rs pad16, verbatim
fn pad16(mac: &mut Poly1305, len: u64)
    requires !old(mac).done@
    ensures final(mac).otk == old(mac).otk, !final(mac).done@, final(mac).fed@ == old(mac).fed@ + pad16_spec(len as int)
{
    if (len % 16) != 0 {
        let padding = [0u8; 15];
        let sz = 16 - (len % 16) as usize;
        mac.input(&padding[0..sz]);
        proof { assert(padding@.subrange(0, sz as int) =~= pad16_spec(len as int)); }
    } else {
        proof { assert(pad16_spec(len as int) =~= Seq::<u8>::empty()); assert(mac.fed@ + Seq::<u8>::empty() =~= mac.fed@); }
    }
}

// body = /repo finalize_raw, verbatim (const generic dropped in this probe)
fn finalize_raw(inner: &mut Context, Ghost(aad): Ghost<Seq<u8>>, Ghost(ct): Ghost<Seq<u8>>) -> (tag: [u8; 16])
    requires old(inner).wf2(aad, ct)
    ensures tag@ == poly(old(inner).mac.otk@, mac_data(aad, ct))
{
    broadcast use poly_len;
    let mut len_buf = [0u8; 16];
    pad16(&mut inner.mac, inner.data_len);
    write_u64_le(&mut len_buf[0..8], inner.aad_len);
    write_u64_le(&mut len_buf[8..16], inner.data_len);
    proof { assert(len_buf@ =~= le64(inner.aad_len) + le64(inner.data_len)); }
    inner.mac.input(&len_buf);
    proof { assert(inner.mac.fed@ =~= mac_data(aad, ct)); }
    inner.mac.raw_result(&mut len_buf);
    proof { assert(len_buf@.subrange(0, 16) =~= len_buf@); }
    len_buf
}
} // verus!
fn main() {}
