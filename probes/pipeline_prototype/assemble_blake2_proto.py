#!/usr/bin/env python3
"""PROTOTYPE: build the BLAKE2b `update_mut` Verus unit from a rustc-expanded crate (argv[1]) into argv[2]."""
import sys, re, os
sys.path.insert(0, os.path.dirname(os.path.abspath(__file__)))
import extract_proto as e
src = open(sys.argv[1]).read().split('\n')
items = e.parse(src, 0, len(src), 0)
F = lambda *p: e.find(items, list(p))
def strip(t):
    t = re.sub(r'^\s*///.*$', '', t, flags=re.M)
    t = re.sub(r'^\s*#\[(inline[^\]]*|rustfmt::skip|allow[^\]]*|automatically_derived|must_use[^\]]*|doc[^\]]*|repr[^\]]*|derive[^\]]*)\]\s*$', '', t, flags=re.M)
    return re.sub(r'\bpub\((crate|super)\) ', 'pub ', t)
upd = F('hashing', 'blake2b', 'impl<const BITS : usize> Context<BITS>', 'update_mut').text()
upd = e.inject(upd,
  sig="        requires old(self).wf()\n        ensures final(self).wf(), final(self).view() == absorb(old(self).view(), input@)",
  loop_clauses={1: "                    invariant self.buflen == 0, input.len() >= 1,\n                        absorb(s0, inp0) == absorb(self.view(), input@),\n                    decreases input.len()"},
  proofs=[('fn-start', "let ghost s0 = self.view(); let ghost inp0 = input@;"),
          ('loop 1 before', "proof { assert(self.buf@.subrange(0, 128) =~= s0.tail + inp0.subrange(0, fill as int)); assert(self.view().tail =~= Seq::<u8>::empty()); assert(input@ =~= inp0.subrange(fill as int, inp0.len() as int)); }"),
          ('loop 1 start', "let ghost iold = input@; proof { assert(self.view().tail =~= Seq::<u8>::empty()); }"),
          ('loop 1 end', "proof { assert(input@ =~= iold.subrange(128, iold.len() as int)); }"),
          ('call 2 copy_from_slice before', "let ghost vlast = self.view(); let ghost ilast = input@;"),
          ('fn-end', "proof { assert(self.view().tail =~= vlast.tail + ilast); }")])
ctx_struct = F('hashing', 'blake2b', 'Context').text()
lastblock = F('hashing', 'blake2', 'common', 'LastBlock').text()
engineb = F('hashing', 'blake2', 'EngineB').text()
consts = "\n".join(c.text() for c in F('hashing', 'blake2', 'impl EngineB').children if c.kind == 'const')
bc = "\n".join(c.text() for c in F('hashing', 'blake2', 'common', 'b').children if c.kind == 'const' and c.name in ('BLOCK_BYTES', 'MAX_KEYLEN', 'MAX_OUTLEN'))
SPEC = r'''
pub struct St { pub h: Seq<u64>, pub t: int, pub tail: Seq<u8> }
pub open spec fn T128() -> int { (0x1_0000_0000_0000_0000int * 0x1_0000_0000_0000_0000int) }
pub open spec fn absorb(s: St, inp: Seq<u8>) -> St
    decreases inp.len(), s.tail.len()
{
    if inp.len() == 0 || s.tail.len() > 128 { s }
    else if s.tail.len() + inp.len() <= 128 { St { h: s.h, t: s.t, tail: s.tail + inp } }
    else {
        let fill = 128 - s.tail.len();
        let t2 = (s.t + 128) % T128();
        let s2 = St { h: F(s.h, t2, s.tail + inp.subrange(0, fill), false), t: t2, tail: Seq::empty() };
        absorb(s2, inp.subrange(fill, inp.len() as int))
    }
}
'''
unit = f'''#![feature(panic_internals)]
#![allow(unused_imports, dead_code, non_snake_case)]
use vstd::prelude::*;
pub mod hashing {{
    pub mod blake2 {{
        use vstd::prelude::*;
        pub mod common {{
            use vstd::prelude::*;
            verus! {{
            pub mod b {{ {bc} }}
            {strip(lastblock)}
            }}
        }}
        pub use common::LastBlock;
        use common::b;
        verus! {{
        pub uninterp spec fn F(h: Seq<u64>, t: int, blk: Seq<u8>, last: bool) -> Seq<u64>;
        {strip(engineb)}
        impl EngineB {{
            {strip(consts)}
            pub open spec fn tval(&self) -> int {{ self.t[0] as int + self.t[1] as int * 0x1_0000_0000_0000_0000 }}
            #[verifier::external_body]
            pub fn increment_counter(&mut self, inc: u64)
                ensures final(self).tval() == (old(self).tval() + inc) % (0x1_0000_0000_0000_0000int * 0x1_0000_0000_0000_0000int), final(self).h == old(self).h
            {{ unimplemented!() }}
            #[verifier::external_body]
            pub fn compress(&mut self, buf: &[u8], last: LastBlock)
                requires buf.len() == 128
                ensures final(self).h@ == F(old(self).h@, old(self).tval(), buf@, last is Yes), final(self).t == old(self).t
            {{ unimplemented!() }}
        }}
        }}
    }}
    pub mod blake2b {{
        use vstd::prelude::*;
        use super::blake2::{{EngineB as Engine, LastBlock, F}};
        verus! {{
        {SPEC}
        {strip(ctx_struct)}
        impl<const BITS : usize> Context<BITS> {{
            pub open spec fn wf(&self) -> bool {{ self.buflen <= 128 }}
            pub open spec fn view(&self) -> St {{ St {{ h: self.eng.h@, t: self.eng.tval(), tail: self.buf@.subrange(0, self.buflen as int) }} }}
{strip(upd)}
        }}
        }}
    }}
}}
fn main() {{}}
'''
unit = unit.replace("eng: Engine,", "pub eng: Engine,").replace("buf: [u8; Engine::BLOCK_BYTES],", "pub buf: [u8; Engine::BLOCK_BYTES],").replace("buflen: usize,", "pub buflen: usize,")
open(sys.argv[2], 'w').write(unit)
