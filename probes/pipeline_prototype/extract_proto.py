#!/usr/bin/env python3
"""PROTOTYPE (design phase): prune rustc's -Zunpretty=expanded output down to a Verus unit.

Relies on the pretty-printer's regular layout: an item at nesting depth d starts at column 4*d and,
if it has a body, ends at the first later line that is exactly '}' (plus optional ';') at that column.
Not the machinery - written to check that DESIGN.md section 1.2 is workable on the real text.
"""
import re, sys, json

ITEM_RE = re.compile(r'^(?P<ind> *)(?P<attrs>(?:#\[[^\]]*\]\s*)*)(?P<vis>pub(?:\([^)]*\))? )?(?P<rest>(?:unsafe |const |default )*(?:mod|fn|struct|enum|impl|trait|const|static|type|use|macro_rules!)\b.*)$')

class Item:
    def __init__(self, depth, start, end, lines, kind, name, header):
        self.depth, self.start, self.end, self.lines = depth, start, end, lines
        self.kind, self.name, self.header = kind, name, header
        self.children = []
    def text(self): return "\n".join(self.lines)

def classify(rest):
    rest = re.sub(r'^(unsafe |const |default )+(?=(fn|impl|trait)\b)', '', rest)
    m = re.match(r'(mod|fn|struct|enum|trait|const|static|type)\s+([A-Za-z_][A-Za-z0-9_]*)', rest)
    if m: return m.group(1), m.group(2)
    if rest.startswith('impl'):
        hdr = rest.split('{')[0].strip()
        hdr = re.sub(r'\s+', ' ', hdr)
        return 'impl', hdr
    if rest.startswith('use'): return 'use', rest.rstrip(';')
    if rest.startswith('macro_rules!'): return 'macro', rest
    return 'other', rest

def parse(lines, lo, hi, depth):
    """items among lines[lo:hi] at the given depth"""
    items = []
    i = lo
    col = 4 * depth
    pending_attr_start = None
    while i < hi:
        ln = lines[i]
        stripped = ln.strip()
        ind = len(ln) - len(ln.lstrip(' '))
        if not stripped or ind != col:
            i += 1; continue
        if stripped.startswith('//'):
            i += 1; continue
        if stripped.startswith('#[') and not ITEM_RE.match(ln):
            if pending_attr_start is None: pending_attr_start = i
            i += 1; continue
        m = ITEM_RE.match(ln)
        if not m:
            pending_attr_start = None
            i += 1; continue
        start = pending_attr_start if pending_attr_start is not None else i
        pending_attr_start = None
        # the item ends at the first line (>= i) after which braces/parens/brackets are balanced
        # and which ends with ';' or '}' (string/char literals are skipped crudely)
        j = i
        end = None
        bal = 0
        while j < hi:
            code = re.sub(r'"(?:\\.|[^"\\])*"', '""', lines[j])          # drop string literals
            code = re.sub(r"'(?:\\.|[^'\\])'", "' '", code)               # drop char literals
            code = code.split('//')[0]
            bal += code.count('{') + code.count('(') + code.count('[') - code.count('}') - code.count(')') - code.count(']')
            s2 = code.strip()
            if bal == 0 and (s2.endswith(';') or s2.endswith('}')):
                end = j; break
            j += 1
        if end is None: end = i
        kind, name = classify(m.group('rest'))
        it = Item(depth, start, end, lines[start:end+1], kind, name, lines[i])
        if kind in ('mod', 'impl', 'trait') and end > i:
            # body starts after the line containing the opening brace
            k = i
            while k <= end and '{' not in lines[k]: k += 1
            it.children = parse(lines, k + 1, end, depth + 1)
            it.body_lo, it.body_hi = k + 1, end
        items.append(it)
        i = end + 1
    return items

def find(items, path):
    """path like ['hashing','blake2b','impl<const BITS : usize> Context<BITS>','update_mut']"""
    cur = items
    node = None
    for seg in path:
        nxt = [x for x in cur if x.name == seg]
        if not nxt: raise KeyError("lost anchor: %s in %s (have: %s)" % (seg, path, sorted(set(x.name for x in cur))[:40]))
        node = nxt[0]; cur = node.children
    return node

if __name__ == '__main__':
    src = open(sys.argv[1]).read().split('\n')
    items = parse(src, 0, len(src), 0)
    if len(sys.argv) > 2 and sys.argv[2] == '--tree':
        def show(its, d=0, maxd=int(sys.argv[3]) if len(sys.argv) > 3 else 2):
            for it in its:
                if it.kind in ('use',): continue
                print('  ' * d + f"{it.kind} {it.name}  [{it.start+1}-{it.end+1}]")
                if d + 1 < maxd: show(it.children, d + 1, maxd)
        show(items)


# ---------------------------------------------------------------- injection (prototype)
def _mask(text):
    """same-length copy of text with string/char literals and // comments blanked"""
    out = list(text)
    i = 0; n = len(text)
    while i < n:
        c = text[i]
        if c == '"':
            j = i + 1
            while j < n and text[j] != '"':
                j += 2 if text[j] == '\\' else 1
            for k in range(i + 1, min(j, n)): out[k] = ' '
            i = j + 1; continue
        if c == '/' and i + 1 < n and text[i + 1] == '/':
            j = text.find('\n', i)
            j = n if j < 0 else j
            for k in range(i, j): out[k] = ' '
            i = j; continue
        if c == "'" and i + 2 < n and (text[i + 2] == "'" or (text[i + 1] == '\\' and i + 3 < n and text[i + 3] == "'")):
            j = i + (3 if text[i + 1] == '\\' else 2)
            for k in range(i + 1, j): out[k] = ' '
            i = j + 1; continue
        i += 1
    return "".join(out)

def _match_brace(m, open_pos):
    d = 0
    for k in range(open_pos, len(m)):
        if m[k] == '{': d += 1
        elif m[k] == '}':
            d -= 1
            if d == 0: return k
    raise ValueError("unbalanced")

def body_open(text):
    """index of the '{' opening the fn body: first '{' at paren/bracket balance 0"""
    m = _mask(text); bal = 0
    for k, c in enumerate(m):
        if c in '([': bal += 1
        elif c in ')]': bal -= 1
        elif c == '{' and bal == 0: return k
    raise ValueError("no body")

def loops(text):
    """[(kw_pos, open_brace, close_brace)] of loops in source order"""
    m = _mask(text); res = []
    for mm in re.finditer(r'(?<![A-Za-z0-9_])(while|for|loop)(?![A-Za-z0-9_])', m):
        # header ends at first '{' at balance 0 after the keyword
        bal = 0; k = mm.end()
        while k < len(m):
            c = m[k]
            if c in '([': bal += 1
            elif c in ')]': bal -= 1
            elif c == '{' and bal == 0: break
            k += 1
        if k >= len(m): continue
        res.append((mm.start(), k, _match_brace(m, k)))
    return res

def inject(text, sig=None, loop_clauses=None, proofs=None, for_binders=None):
    """sig: str inserted before the body brace; loop_clauses: {k: str}; proofs: [(anchor, str)];
    anchors: 'fn-start', 'fn-end', 'loop k before|after|start|end'; for_binders: {k: 'it'}"""
    edits = []   # (pos, text)
    if sig:
        edits.append((body_open(text), "\n" + sig + "\n"))
    ls = loops(text)
    for k, cl in (loop_clauses or {}).items():
        kw, ob, cb = ls[k - 1]
        edits.append((ob, "\n" + cl + "\n"))
    for k, b in (for_binders or {}).items():
        kw, ob, cb = ls[k - 1]
        mm = re.compile(r'\bin\b').search(_mask(text), kw, ob)
        edits.append((mm.end(), " %s:" % b))
    for anchor, pr in (proofs or []):
        if anchor == 'fn-start': pos = body_open(text) + 1
        elif anchor == 'fn-end': pos = _match_brace(_mask(text), body_open(text))
        elif anchor.startswith('call '):
            # 'call k <callee> before' : start of the statement containing the k-th '<callee>('
            _, k, callee, where = anchor.split()
            m = _mask(text); idx = -1
            for _i in range(int(k)):
                idx = m.index(callee + '(', idx + 1)
            p = idx
            while p > 0 and m[p - 1] not in ';{}': p -= 1
            pos = p
        else:
            _, k, where = anchor.split()
            kw, ob, cb = ls[int(k) - 1]
            pos = {'before': kw, 'after': cb + 1, 'start': ob + 1, 'end': cb}[where]
        edits.append((pos, "\n" + pr + "\n"))
    # apply right-to-left; for equal positions keep the given order
    for pos, t in sorted(edits, key=lambda e: e[0], reverse=True):
        text = text[:pos] + t + text[pos:]
    return text
