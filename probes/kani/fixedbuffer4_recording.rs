// appended to src/cryptoutil.rs of a scratch copy; cargo kani --harness fixedbuffer4_three_inputs (29 s)
#[cfg(kani)]
mod verif_fixedbuffer {
    use super::*;

    // C02 wiring: every history of 3 `input` calls on FixedBuffer<4>, symbolic lengths 0..=9, symbolic bytes:
    // (bytes handed to the closure, in order) ++ buffer[..idx] == concatenation of inputs
    #[kani::proof]
    #[kani::unwind(40)]
    fn fixedbuffer4_three_inputs() {
        let data: [u8; 27] = kani::any();
        let l1: usize = kani::any(); let l2: usize = kani::any(); let l3: usize = kani::any();
        kani::assume(l1 <= 9 && l2 <= 9 && l3 <= 9);
        let mut log = [0u8; 32];
        let mut n = 0usize;
        let mut fb = FixedBuffer::<4>::new();
        {
            let mut f = |b: &[u8]| {
                assert!(b.len() % 4 == 0 && b.len() > 0);
                let mut i = 0;
                while i < b.len() { log[n] = b[i]; n += 1; i += 1; }
            };
            fb.input(&data[0..l1], &mut f);
            fb.input(&data[l1..l1 + l2], &mut f);
            fb.input(&data[l1 + l2..l1 + l2 + l3], &mut f);
        }
        let total = l1 + l2 + l3;
        assert!(n + fb.buffer_idx == total);
        assert!(fb.buffer_idx < 4);
        let mut i = 0;
        while i < total {
            let got = if i < n { log[i] } else { fb.buffer[i - n] };
            assert!(got == data[i]);
            i += 1;
        }
    }
}
