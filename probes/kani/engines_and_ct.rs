// Probe harnesses used while writing DESIGN.md (appended to a scratch copy of
// /repo as `#[cfg(kani)] mod kani_probe;` in src/lib.rs).  Not part of the
// machinery; kept as seeds.
//
//   ct_lt_u64                : D1 — `ct_le`/`ct_ge` fail for a == b (0.3 s)
//   engines_agree_2rounds    : SSE2 vs portable ChaCha engine, one double round,
//                              passes modulo Kani's spurious `simd_add overflow` (23 s)
//   engines_agree_key16      : D5 — portable `init` ignores a 16-byte key (2 s)

use crate::constant_time::*;

#[kani::proof]
fn ct_lt_u64() {
    let a: u64 = kani::any();
    let b: u64 = kani::any();
    assert!(u64::ct_lt(a, b).is_true() == (a < b), "lt");
    assert!(u64::ct_gt(a, b).is_true() == (a > b), "gt");
    assert!(u64::ct_le(a, b).is_true() == (a <= b), "le");
    assert!(u64::ct_ge(a, b).is_true() == (a >= b), "ge");
}

#[path = "chacha/reference.rs"]
mod portable;
use crate::chacha::ChaChaEngine;

#[kani::proof]
#[kani::unwind(65)]
fn engines_agree_2rounds() {
    let key: [u8; 32] = kani::any();
    let nonce: [u8; 12] = kani::any();
    let a0 = ChaChaEngine::<2>::init(&key, &nonce);
    let b0 = portable::State::<2>::init(&key, &nonce);
    let mut a = a0.clone();
    let mut b = b0.clone();
    a.rounds(); b.rounds();
    a.add_back(&a0); b.add_back(&b0);
    let mut oa = [0u8; 64];
    let mut ob = [0u8; 64];
    a.output_bytes(&mut oa);
    b.output_bytes(&mut ob);
    let mut i = 0;
    while i < 64 { assert!(oa[i] == ob[i]); i += 1; }
}

#[kani::proof]
#[kani::unwind(65)]
fn engines_agree_key16() {
    let key: [u8; 16] = kani::any();
    let nonce: [u8; 8] = kani::any();
    let a = ChaChaEngine::<2>::init(&key, &nonce);
    let b = portable::State::<2>::init(&key, &nonce);
    let mut oa = [0u8; 64];
    let mut ob = [0u8; 64];
    a.output_bytes(&mut oa);
    b.output_bytes(&mut ob);
    let mut i = 0;
    while i < 64 { assert!(oa[i] == ob[i]); i += 1; }
}
