#[cfg(kani)]
mod kani_probe {
    use crate::curve25519::Fe;
    const P: [u8; 32] = [0xed, 0xff, 0xff, 0xff, 0xff, 0xff, 0xff, 0xff, 0xff, 0xff, 0xff, 0xff, 0xff, 0xff, 0xff, 0xff,
                         0xff, 0xff, 0xff, 0xff, 0xff, 0xff, 0xff, 0xff, 0xff, 0xff, 0xff, 0xff, 0xff, 0xff, 0xff, 0x7f];
    // spec: canonical(le(b) mod 2^255 mod p), computed byte-wise: clear bit 255, subtract p once if >= p
    fn spec_canon(b: &[u8; 32]) -> [u8; 32] {
        let mut v = *b; v[31] &= 0x7f;
        let mut ge = true; let mut i = 32;
        while i > 0 { i -= 1; if v[i] < P[i] { ge = false; break; } if v[i] > P[i] { break; } }
        if ge { let mut borrow = 0i16; let mut j = 0; while j < 32 { let d = v[j] as i16 - P[j] as i16 - borrow; if d < 0 { v[j] = (d + 256) as u8; borrow = 1; } else { v[j] = d as u8; borrow = 0; } j += 1; } }
        v
    }
    #[kani::proof]
    #[kani::unwind(34)]
    fn decode_encode_is_canonical() {
        let b: [u8; 32] = kani::any();
        let got = Fe::from_bytes(&b).to_bytes();
        let want = spec_canon(&b);
        let mut i = 0;
        while i < 32 { assert!(got[i] == want[i]); i += 1; }
    }
    #[kani::proof]
    #[kani::unwind(34)]
    fn equality_is_field_equality() {
        let x: [u8; 32] = kani::any();
        let y: [u8; 32] = kani::any();
        let e = Fe::from_bytes(&x) == Fe::from_bytes(&y);
        let sx = spec_canon(&x); let sy = spec_canon(&y);
        assert!(e == (sx == sy));
    }
}
