use crate::mac::Mac;
use crate::poly1305::Poly1305;
use crate::chacha20::ChaCha20;

#[allow(dead_code, missing_docs)]
mod c25519 {
    pub mod fe { #[path = "/root/scratch/kp/repo/src/curve25519/fe/load.rs"] pub mod load; }
    pub mod scalar { #[path = "/root/scratch/kp/repo/src/curve25519/scalar/scalar32.rs"] pub mod scalar32; }
}
use c25519::scalar::scalar32;

// D2: second raw_result after a 16-byte message
#[kani::proof]
#[kani::unwind(17)]
fn poly_result_twice_same() {
    let key: [u8; 32] = kani::any();
    let msg: [u8; 16] = kani::any();
    let mut p = Poly1305::new(&key);
    p.input(&msg);
    let mut a = [0u8; 16];
    let mut b = [0u8; 16];
    p.raw_result(&mut a);
    p.raw_result(&mut b);
    assert!(a == b);
}

// refusal: key length not in {16, 32} never returns
#[kani::proof]
#[kani::unwind(70)]
fn chacha_new_refuses_bad_key_len() {
    let buf: [u8; 40] = kani::any();
    let n: usize = kani::any();
    kani::assume(n <= 40 && n != 16 && n != 32);
    let nonce: [u8; 12] = kani::any();
    let _c = ChaCha20::new(&buf[..n], &nonce);
    kani::cover!(true, "returned normally");
}

const L_LE: [u8; 32] = [0xed, 0xd3, 0xf5, 0x5c, 0x1a, 0x63, 0x12, 0x58, 0xd6, 0x9c, 0xf7, 0xa2, 0xde, 0xf9, 0xde, 0x14,
                        0, 0, 0, 0, 0, 0, 0, 0, 0, 0, 0, 0, 0, 0, 0, 0x10];
fn spec_lt_l(s: &[u8; 32]) -> bool {
    let mut i = 32;
    while i > 0 { i -= 1; if s[i] < L_LE[i] { return true; } if s[i] > L_LE[i] { return false; } }
    false
}
// D7
#[kani::proof]
#[kani::unwind(34)]
fn scalar32_canonical_iff_lt_l() {
    let s: [u8; 32] = kani::any();
    assert!(scalar32::Scalar::from_bytes_canonical(&s).is_some() == spec_lt_l(&s));
}
#[kani::proof]
#[kani::unwind(34)]
fn scalar64_canonical_iff_lt_l() {
    let s: [u8; 32] = kani::any();
    assert!(crate::curve25519::Scalar::from_bytes_canonical(&s).is_some() == spec_lt_l(&s));
}
