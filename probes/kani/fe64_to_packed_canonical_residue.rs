// appended to src/curve25519/fe/fe64/mod.rs of a scratch copy; cargo kani --harness to_packed_is_canonical_residue  (41 s, all limb vectors < 2^53)
#[cfg(kani)]
mod verif_encode {
    use super::*;

    // 320-bit little-endian bignum helpers (harness-side spec arithmetic)
    fn add5(a: [u64; 5], b: [u64; 5]) -> [u64; 5] {
        let mut r = [0u64; 5];
        let mut c = 0u128;
        let mut i = 0;
        while i < 5 { let t = a[i] as u128 + b[i] as u128 + c; r[i] = t as u64; c = t >> 64; i += 1; }
        r
    }
    const P: [u64; 5] = [0xffff_ffff_ffff_ffed, 0xffff_ffff_ffff_ffff, 0xffff_ffff_ffff_ffff, 0x7fff_ffff_ffff_ffff, 0];

    // value of 5 limbs (radix 2^51) as a 320-bit number
    fn limbs_value(t: &[u64; 5]) -> [u64; 5] {
        let mut acc = [0u64; 5];
        let mut i = 0;
        while i < 5 {
            // t[i] << (51*i)
            let sh = 51 * i;
            let w = sh / 64; let b = sh % 64;
            let mut term = [0u64; 5];
            term[w] = t[i] << b;
            if b != 0 && w + 1 < 5 { term[w + 1] = t[i] >> (64 - b); }
            acc = add5(acc, term);
            i += 1;
        }
        acc
    }

    #[kani::proof]
    #[kani::unwind(41)]
    fn to_packed_is_canonical_residue() {
        let t: [u64; 5] = kani::any();
        kani::assume(t[0] < (1 << 53) && t[1] < (1 << 53) && t[2] < (1 << 53) && t[3] < (1 << 53) && t[4] < (1 << 53));
        let out = Fe(t).to_packed();
        // canonical: out < p
        let o5 = [out[0], out[1], out[2], out[3], 0u64];
        let lt_p = out[3] < P[3] || (out[3] == P[3] && (out[2] < P[2] || (out[2] == P[2] && (out[1] < P[1] || (out[1] == P[1] && out[0] < P[0])))));
        assert!(lt_p);
        // congruent: value(t) == out + k*p for some small k (value < 2^53 * 2^204 * 2 < 2^258  =>  k <= 8)
        let v = limbs_value(&t);
        let mut cand = o5;
        let mut found = false;
        let mut k = 0;
        while k <= 9 {
            if cand == v { found = true; }
            cand = add5(cand, P);
            k += 1;
        }
        assert!(found);
    }
}
