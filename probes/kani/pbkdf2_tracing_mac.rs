#[cfg(kani)]
mod kani_kdf {
    use crate::mac::{Mac, MacResult};
    use crate::pbkdf2::pbkdf2;

    // Tracing MAC: output of the n-th raw_result is [n, n, n, n] xor'ed with a fold of the bytes fed since reset,
    // so both *which bytes go into which call* and *where each call's output lands* are observable.
    const OS: usize = 4;
    struct TraceMac { calls: u8, acc: u8, fed: usize }
    impl Mac for TraceMac {
        fn input(&mut self, data: &[u8]) { let mut i = 0; while i < data.len() { self.acc = self.acc.rotate_left(1) ^ data[i]; self.fed += 1; i += 1; } }
        fn reset(&mut self) { self.acc = 0; self.fed = 0; }
        fn result(&mut self) -> MacResult { let mut o = [0u8; OS]; self.raw_result(&mut o); MacResult::new(&o) }
        fn raw_result(&mut self, output: &mut [u8]) {
            assert!(output.len() == OS);
            self.calls += 1;
            let mut i = 0; while i < OS { output[i] = self.calls.wrapping_mul(16).wrapping_add(i as u8) ^ self.acc; i += 1; }
        }
        fn output_bytes(&self) -> usize { OS }
    }

    // RFC 8018 5.2 written directly over the same tracing MAC
    fn spec_pbkdf2(salt: &[u8], c: u32, out: &mut [u8]) {
        let mut m = TraceMac { calls: 0, acc: 0, fed: 0 };
        let mut i: u32 = 1; let mut pos = 0;
        while pos < out.len() {
            let mut u = [0u8; OS]; let mut t = [0u8; OS];
            m.reset(); m.input(salt); m.input(&i.to_be_bytes()); m.raw_result(&mut u); t = u;
            let mut j = 1;
            while j < c { let prev = u; m.reset(); m.input(&prev); m.raw_result(&mut u); let mut k = 0; while k < OS { t[k] ^= u[k]; k += 1; } j += 1; }
            let mut k = 0; while k < OS && pos < out.len() { out[pos] = t[k]; pos += 1; k += 1; }
            i += 1;
        }
    }

    #[kani::proof]
    #[kani::unwind(12)]
    fn pbkdf2_structure_c3_dk10() {
        let salt: [u8; 5] = kani::any();
        let mut got = [0u8; 10];          // 2 full blocks + partial (2 bytes)
        let mut want = [0u8; 10];
        let mut m = TraceMac { calls: 0, acc: 0, fed: 0 };
        pbkdf2(&mut m, &salt, 3, &mut got);
        spec_pbkdf2(&salt, 3, &mut want);
        let mut i = 0; while i < 10 { assert!(got[i] == want[i]); i += 1; }
    }
}
