// appended to src/hashing/sha2/mod.rs of a scratch copy; run with
//   cargo kani -Z stubbing --harness sha256_split_trace_equals_oneshot   (76 s)
#[cfg(kani)]
mod verif_chunking {
    use super::*;

    static mut TRACE: [u8; 256] = [0; 256];
    static mut TLEN: usize = 0;

    // recording stub for the compression function: appends what it is handed to TRACE
    fn recording_digest_block(_state: &mut [u32; 8], block: &[u8]) {
        unsafe {
            let mut i = 0;
            while i < block.len() { TRACE[TLEN] = block[i]; TLEN += 1; i += 1; }
        }
    }

    #[kani::proof]
    #[kani::unwind(200)]
    #[kani::stub(crate::hashing::sha2::impl256::digest_block, recording_digest_block)]
    fn sha256_split_trace_equals_oneshot() {
        let data: [u8; 65] = kani::any();
        unsafe { TLEN = 0; }
        let _ = Context256::new().update(&data[..]).finalize();
        let n1 = unsafe { TLEN };
        let t1 = unsafe { TRACE };
        assert!(n1 == 128);
        // padding per FIPS 180-4 for a 65-byte message
        let mut i = 0;
        while i < 65 { assert!(t1[i] == data[i]); i += 1; }
        assert!(t1[65] == 0x80);
        while i < 56 + 64 - 1 { i += 1; if i > 65 && i < 120 { assert!(t1[i] == 0); } }
        assert!(t1[126] == 0x02 && t1[127] == 0x08); // 65*8 = 520 = 0x0208
        let mut cut = 0;
        while cut <= 65 { if cut == 2 { cut = 63; }
            unsafe { TLEN = 0; }
            let mut c = Context256::new();
            c.update_mut(&data[..cut]);
            c.update_mut(&data[cut..]);
            let _ = c.finalize();
            let n2 = unsafe { TLEN };
            assert!(n2 == n1);
            let t2 = unsafe { TRACE };
            let mut j = 0;
            while j < 128 { assert!(t2[j] == t1[j]); j += 1; }
            cut += 1;
        }
    }
}
