#[cfg(kani)]
mod verif_finish {
    use super::*;

    // harness-side 192-bit little-endian arithmetic
    fn add3(a: [u64; 3], b: [u64; 3]) -> [u64; 3] {
        let mut r = [0u64; 3]; let mut c = 0u128; let mut i = 0;
        while i < 3 { let t = a[i] as u128 + b[i] as u128 + c; r[i] = t as u64; c = t >> 64; i += 1; }
        r
    }
    fn limbs_value(h: &[u32; 5]) -> [u64; 3] {
        let mut acc = [0u64; 3]; let mut i = 0;
        while i < 5 {
            let sh = 26 * i; let w = sh / 64; let b = sh % 64;
            let mut term = [0u64; 3];
            term[w] = (h[i] as u64) << b;
            if b != 0 && w + 1 < 3 { term[w + 1] = (h[i] as u64) >> (64 - b); }
            acc = add3(acc, term); i += 1;
        }
        acc
    }
    const P: [u64; 3] = [0xffff_ffff_ffff_fffb, 0xffff_ffff_ffff_ffff, 0x3];   // 2^130 - 5

    // finish on a block-aligned message: tag == ((value(h) mod p) + pad) mod 2^128, for every accumulator the block function can leave
    #[kani::proof]
    #[kani::unwind(12)]
    fn finish_is_reduce_then_add_pad() {
        let h: [u32; 5] = kani::any();
        let pad: [u32; 4] = kani::any();
        kani::assume(h[0] < (1 << 26) && h[1] < (1 << 26) + 64 && h[2] < (1 << 26) && h[3] < (1 << 26) && h[4] < (1 << 26));
        let mut p = Poly1305 { r: kani::any(), h, pad, leftover: 0, buffer: [0u8; 16], finalized: false };
        p.finish();
        // hred < p with value(h) == hred + k*p, k in 0..=5
        let v = limbs_value(&h);
        let tag = [(p.h[0] as u64) | ((p.h[1] as u64) << 32), (p.h[2] as u64) | ((p.h[3] as u64) << 32)];
        let padv = [(pad[0] as u64) | ((pad[1] as u64) << 32), (pad[2] as u64) | ((pad[3] as u64) << 32)];
        // search hred = v - k*p (as cand + k*p == v), then check tag == (hred + pad) mod 2^128
        let mut ok = false;
        let mut kp = [0u64; 3];
        let mut k = 0;
        while k <= 5 {
            // hred candidate = v - kp  (only when v >= kp)
            let ge = v[2] > kp[2] || (v[2] == kp[2] && (v[1] > kp[1] || (v[1] == kp[1] && v[0] >= kp[0])));
            if ge {
                let (d0, b0) = v[0].overflowing_sub(kp[0]);
                let (d1a, b1a) = v[1].overflowing_sub(kp[1]); let (d1, b1b) = d1a.overflowing_sub(b0 as u64);
                let d2 = v[2].wrapping_sub(kp[2]).wrapping_sub((b1a || b1b) as u64);
                let lt_p = d2 < P[2] || (d2 == P[2] && (d1 < P[1] || (d1 == P[1] && d0 < P[0])));
                if lt_p {
                    let (s0, c0) = d0.overflowing_add(padv[0]);
                    let s1 = d1.wrapping_add(padv[1]).wrapping_add(c0 as u64);
                    if s0 == tag[0] && s1 == tag[1] { ok = true; }
                }
            }
            kp = add3(kp, P);
            k += 1;
        }
        assert!(ok);
    }
}
