// ---- poly1305_spec: RFC 8439 section 2.5, over mathematical integers and Seq<u8> -------------------------------
pub open spec fn P1305() -> int { 0x4000000int * 0x100000000000000000000000000int - 5 }     // 2^130 - 5
pub open spec fn T128() -> int { 0x10000000000000000int * 0x10000000000000000int }          // 2^128
pub open spec fn T32() -> int { 0x100000000int }
// little-endian value of a byte string ("le_bytes_to_num")
pub open spec fn le_val(s: Seq<u8>) -> int
    decreases s.len()
{
    if s.len() == 0 { 0 } else { s[0] as int + 256 * le_val(s.drop_first()) }
}
// r clamping, RFC 8439 2.5: r &= 0x0ffffffc0ffffffc0ffffffc0fffffff
pub open spec fn CLAMP() -> u128 { 0x0ffffffc0ffffffc0ffffffc0fffffffu128 }
pub open spec fn clamp(x: int) -> int { ((x as u128) & CLAMP()) as int }
pub open spec fn key_r(key: Seq<u8>) -> int { clamp(le_val(key.subrange(0, 16))) }
pub open spec fn key_s(key: Seq<u8>) -> int { le_val(key.subrange(16, 32)) }
// one block (1..=16 bytes): a = (a + le(block || 0x01)) * r mod p
pub open spec fn blk_rfc(acc: int, r: int, blk: Seq<u8>) -> int { ((acc + le_val(blk.push(1u8))) * r) % P1305() }
// streaming state: accumulator (canonical mod p) and the bytes of the current, not yet complete, block
pub struct PSt { pub acc: int, pub buf: Seq<u8> }
pub open spec fn pst0() -> PSt { PSt { acc: 0, buf: Seq::empty() } }
pub open spec fn feed1(s: PSt, r: int, b: u8) -> PSt {
    let nb = s.buf.push(b);
    if nb.len() >= 16 { PSt { acc: blk_rfc(s.acc, r, nb), buf: Seq::empty() } } else { PSt { acc: s.acc, buf: nb } }
}
pub open spec fn feed(s: PSt, r: int, data: Seq<u8>) -> PSt
    decreases data.len()
{
    if data.len() == 0 { s } else { feed(feed1(s, r, data[0]), r, data.drop_first()) }
}
// finalisation: last partial block (if any), then (acc + s) mod 2^128
pub open spec fn fin(s: PSt, r: int, pad: int) -> int {
    let a = if s.buf.len() > 0 { blk_rfc(s.acc, r, s.buf) } else { s.acc };
    (a % P1305() + pad) % T128()
}
pub open spec fn poly1305_int(r: int, pad: int, msg: Seq<u8>) -> int { fin(feed(pst0(), r, msg), r, pad) }
pub open spec fn tag_bytes(t: int) -> Seq<u8> {
    le4(t % T32()) + le4((t / T32()) % T32()) + le4((t / (T32() * T32())) % T32()) + le4((t / (T32() * T32() * T32())) % T32())
}
pub open spec fn poly1305_mac(key: Seq<u8>, msg: Seq<u8>) -> Seq<u8> { tag_bytes(poly1305_int(key_r(key), key_s(key), msg)) }

// ---- spec-level lemmas (independent of the code)
pub proof fn lemma_feed_split(s: PSt, r: int, a: Seq<u8>, b: Seq<u8>)
    ensures feed(s, r, a + b) == feed(feed(s, r, a), r, b)
    decreases a.len()
{
    if a.len() == 0 {
        assert(a + b =~= b);
    } else {
        assert((a + b).drop_first() =~= a.drop_first() + b);
        assert((a + b)[0] == a[0]);
        lemma_feed_split(feed1(s, r, a[0]), r, a.drop_first(), b);
    }
}
pub proof fn lemma_feed_short(s: PSt, r: int, d: Seq<u8>)
    requires s.buf.len() + d.len() <= 16, s.buf.len() < 16
    ensures feed(s, r, d) == (if s.buf.len() + d.len() == 16 { PSt { acc: blk_rfc(s.acc, r, s.buf + d), buf: Seq::<u8>::empty() } }
                              else { PSt { acc: s.acc, buf: s.buf + d } })
    decreases d.len()
{
    if d.len() == 0 {
        assert(s.buf + d =~= s.buf);
    } else {
        let s1 = feed1(s, r, d[0]);
        let rest = d.drop_first();
        assert(feed(s, r, d) == feed(s1, r, rest));
        assert(s.buf.push(d[0]) + rest =~= s.buf + d);
        if s.buf.len() + 1 < 16 {
            assert(s1 == PSt { acc: s.acc, buf: s.buf.push(d[0]) });
            lemma_feed_short(s1, r, rest);
            assert(s1.buf.len() + rest.len() == s.buf.len() + d.len());
        } else {
            assert(rest.len() == 0);
            assert(s.buf.push(d[0]) =~= s.buf + d);
            assert(feed(s1, r, rest) == s1);
        }
    }
}
