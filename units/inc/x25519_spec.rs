// ---- x25519_spec: RFC 7748 section 5, literally (the function is *defined* as this ladder over GF(2^255-19)) ---------------
pub struct LSt { pub x2: int, pub z2: int, pub x3: int, pub z3: int, pub swap: int }
pub open spec fn cswap(sw: int, a: int, b: int) -> (int, int) { if sw == 1 { (b, a) } else { (a, b) } }
pub open spec fn pow2(n: int) -> int decreases n { if n <= 0 { 1 } else { 2 * pow2(n - 1) } }
/// k_t = (k >> t) & 1 for the scalar given as 32 little-endian bytes
pub open spec fn kbit(k: Seq<u8>, t: int) -> int { ((k[t / 8] as int) / pow2(t % 8)) % 2 }
pub open spec fn lstep(x1: int, s: LSt, kt: int) -> LSt {
    let sw = if s.swap == kt { 0int } else { 1int };      // swap ^= k_t
    let (x2, x3) = cswap(sw, s.x2, s.x3);
    let (z2, z3) = cswap(sw, s.z2, s.z3);
    let a = fadd(x2, z2);
    let aa = fmul(a, a);
    let b = fsub(x2, z2);
    let bb = fmul(b, b);
    let e = fsub(aa, bb);
    let c = fadd(x3, z3);
    let d = fsub(x3, z3);
    let da = fmul(d, a);
    let cb = fmul(c, b);
    let t0 = fadd(da, cb);
    let t1 = fsub(da, cb);
    LSt { x3: fmul(t0, t0), z3: fmul(x1, fmul(t1, t1)), x2: fmul(aa, bb), z2: fmul(e, fadd(aa, fmul(121665, e))), swap: kt }
}
/// state after processing bits 254 down to t (inclusive); ladder(.., 255) is the initial state
pub open spec fn ladder(x1: int, k: Seq<u8>, t: int) -> LSt
    decreases 255 - t
{
    if t >= 255 { LSt { x2: 1, z2: 0, x3: x1, z3: 1, swap: 0 } }
    else { lstep(x1, ladder(x1, k, t + 1), kbit(k, t)) }
}
pub open spec fn clamp(n: Seq<u8>) -> Seq<u8> { n.update(0, n[0] & 0xf8).update(31, (n[31] & 0x7f) | 0x40) }
pub open spec fn x25519(n: Seq<u8>, u: Seq<u8>) -> Seq<u8> {
    let s = ladder(fe_dec(u), clamp(n), 0);
    let (x2, _x3) = cswap(s.swap, s.x2, s.x3);
    let (z2, _z3) = cswap(s.swap, s.z2, s.z3);
    fe_enc(fmul(x2, finv(z2)))
}
pub proof fn lemma_bit(b: u8, p: usize)
    requires p < 8
    ensures (((b >> p) & 1) as int) == ((b as int) / pow2(p as int)) % 2, ((b >> p) & 1) == 0 || ((b >> p) & 1) == 1
{
    assert(((b >> p) & 1) == 0 || ((b >> p) & 1) == 1) by (bit_vector) requires p < 8;
    assert(pow2(0) == 1 && pow2(1) == 2 && pow2(2) == 4 && pow2(3) == 8 && pow2(4) == 16 && pow2(5) == 32 && pow2(6) == 64 && pow2(7) == 128) by {
        reveal_with_fuel(pow2, 9);
    }
    if p == 0 { assert(((b >> 0usize) & 1) as int == (b as int / 1) % 2) by (bit_vector); }
    else if p == 1 { assert(((b >> 1usize) & 1) as int == (b as int / 2) % 2) by (bit_vector); }
    else if p == 2 { assert(((b >> 2usize) & 1) as int == (b as int / 4) % 2) by (bit_vector); }
    else if p == 3 { assert(((b >> 3usize) & 1) as int == (b as int / 8) % 2) by (bit_vector); }
    else if p == 4 { assert(((b >> 4usize) & 1) as int == (b as int / 16) % 2) by (bit_vector); }
    else if p == 5 { assert(((b >> 5usize) & 1) as int == (b as int / 32) % 2) by (bit_vector); }
    else if p == 6 { assert(((b >> 6usize) & 1) as int == (b as int / 64) % 2) by (bit_vector); }
    else { assert(((b >> 7usize) & 1) as int == (b as int / 128) % 2) by (bit_vector); }
}
// the code computes z2 = E * (BB + 121666 * E); RFC 7748 writes E * (AA + 121665 * E) with E = AA - BB: the same element
pub proof fn lemma_a24_bridge(aa: int, bb: int)
    ensures fadd(bb, fmul(fsub(aa, bb), 121666)) == fadd(aa, fmul(121665, fsub(aa, bb)))
{
    lemma_P_pos();
    let p = P();
    let e = fsub(aa, bb);
    let q0 = (aa - bb) / p;
    vstd::arithmetic::div_mod::lemma_fundamental_div_mod(aa - bb, p);
    let l = e * 121666; let r = 121665 * e;
    vstd::arithmetic::div_mod::lemma_fundamental_div_mod(l, p);
    vstd::arithmetic::div_mod::lemma_fundamental_div_mod(r, p);
    let ql = l / p; let qr = r / p;
    let lhs = bb + l % p; let rhs = aa + r % p;
    assert(lhs - rhs == (0 - q0 - ql + qr) * p) by (nonlinear_arith)
        requires aa - bb == p * q0 + e, l == p * ql + l % p, r == p * qr + r % p, l == e * 121666, r == 121665 * e, lhs == bb + l % p, rhs == aa + r % p;
    lemma_multiple_mod(0 - q0 - ql + qr);
    lemma_feq_mod(lhs, rhs);
}
pub proof fn lemma_fmul_comm(a: int, b: int) ensures fmul(a, b) == fmul(b, a) { assert(a * b == b * a) by (nonlinear_arith); }
