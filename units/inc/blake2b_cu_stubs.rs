// contract-only stubs (raw pointers / try_from on sub-slices); contracts are the assertion text of Kani harnesses in kani/cryptoutil.rs
#[verifier::external_body]
pub fn write_u64v_le(dst: &mut [u8], input: &[u64])
    requires old(dst).len() == 8 * input.len()
    ensures final(dst)@ == words_le(input@)
{ unimplemented!() }
#[verifier::external_body]
pub fn zero(dst: &mut [u8])
    ensures final(dst)@ == zeros(old(dst).len() as int)
{ unimplemented!() }
#[verifier::external_body]
pub fn read_u64v_le(dst: &mut [u64], input: &[u8])
    requires old(dst).len() * 8 == input.len(), old(dst).len() == 16
    ensures final(dst)@ == words_of(input@)
{ unimplemented!() }
