// ---- blake2b spec: RFC 7693 (word size 64, block 128 bytes, 12 rounds), over Seq<u64> / Seq<u8> -------------------
pub open spec fn TW() -> int { 0x1_0000_0000_0000_0000 }                 // 2^64
pub open spec fn TT() -> int { TW() * TW() }             // the byte counter is two words wide
pub open spec fn rotr(x: u64, n: u64) -> u64 { (x >> n) | (x << ((64 - n) as u64)) }
#[verifier::opaque]
pub open spec fn addw(a: u64, b: u64) -> u64 { a.wrapping_add(b) }
pub open spec fn IV() -> Seq<u64> { seq![0x6a09e667f3bcc908u64, 0xbb67ae8584caa73bu64, 0x3c6ef372fe94f82bu64, 0xa54ff53a5f1d36f1u64, 0x510e527fade682d1u64, 0x9b05688c2b3e6c1fu64, 0x1f83d9abfb41bd6bu64, 0x5be0cd19137e2179u64] }
// message word schedule SIGMA (RFC 7693 2.7), one row per round (rounds 10 and 11 of BLAKE2b reuse rows 0 and 1)
pub open spec fn SIGMA(r: int) -> Seq<int> {
    if r == 0 { seq![0int, 1, 2, 3, 4, 5, 6, 7, 8, 9, 10, 11, 12, 13, 14, 15] }
    else if r == 1 { seq![14int, 10, 4, 8, 9, 15, 13, 6, 1, 12, 0, 2, 11, 7, 5, 3] }
    else if r == 2 { seq![11int, 8, 12, 0, 5, 2, 15, 13, 10, 14, 3, 6, 7, 1, 9, 4] }
    else if r == 3 { seq![7int, 9, 3, 1, 13, 12, 11, 14, 2, 6, 5, 10, 4, 0, 15, 8] }
    else if r == 4 { seq![9int, 0, 5, 7, 2, 4, 10, 15, 14, 1, 11, 12, 6, 8, 3, 13] }
    else if r == 5 { seq![2int, 12, 6, 10, 0, 11, 8, 3, 4, 13, 7, 5, 15, 14, 1, 9] }
    else if r == 6 { seq![12int, 5, 1, 15, 14, 13, 4, 10, 0, 7, 6, 3, 9, 2, 8, 11] }
    else if r == 7 { seq![13int, 11, 7, 14, 12, 1, 3, 9, 5, 0, 15, 4, 8, 6, 2, 10] }
    else if r == 8 { seq![6int, 15, 14, 9, 11, 3, 0, 8, 12, 2, 13, 7, 1, 4, 10, 5] }
    else { seq![10int, 2, 8, 4, 7, 6, 1, 5, 15, 11, 9, 14, 3, 12, 13, 0] }
}
// mixing function G (RFC 7693 3.1) on indices (a,b,c,d) with message words x, y
pub open spec fn G(v: Seq<u64>, a: int, b: int, c: int, d: int, x: u64, y: u64) -> Seq<u64> {
    let a1 = addw(addw(v[a], v[b]), x); let d1 = rotr(v[d] ^ a1, 32);
    let c1 = addw(v[c], d1);            let b1 = rotr(v[b] ^ c1, 24);
    let a2 = addw(addw(a1, b1), y);     let d2 = rotr(d1 ^ a2, 16);
    let c2 = addw(c1, d2);              let b2 = rotr(b1 ^ c2, 63);
    v.update(a, a2).update(b, b2).update(c, c2).update(d, d2)
}
#[verifier::opaque]
pub open spec fn round(v: Seq<u64>, m: Seq<u64>, r: int) -> Seq<u64> {
    let s = SIGMA(r % 10);
    let v1 = G(G(G(G(v, 0, 4, 8, 12, m[s[0]], m[s[1]]), 1, 5, 9, 13, m[s[2]], m[s[3]]), 2, 6, 10, 14, m[s[4]], m[s[5]]), 3, 7, 11, 15, m[s[6]], m[s[7]]);
    G(G(G(G(v1, 0, 5, 10, 15, m[s[8]], m[s[9]]), 1, 6, 11, 12, m[s[10]], m[s[11]]), 2, 7, 8, 13, m[s[12]], m[s[13]]), 3, 4, 9, 14, m[s[14]], m[s[15]])
}
#[verifier::opaque]
pub open spec fn rounds(v: Seq<u64>, m: Seq<u64>, n: int) -> Seq<u64> decreases n { if n <= 0 { v } else { round(rounds(v, m, n - 1), m, n - 1) } }
pub open spec fn le_word(b: Seq<u8>) -> u64 { (b[0] as int + b[1] as int * 0x100 + b[2] as int * 0x10000 + b[3] as int * 0x1000000 + b[4] as int * 0x100000000 + b[5] as int * 0x10000000000 + b[6] as int * 0x1000000000000 + b[7] as int * 0x100000000000000) as u64 }
pub open spec fn words_of(blk: Seq<u8>) -> Seq<u64> { Seq::new(16, |i: int| le_word(blk.subrange(8 * i, 8 * i + 8))) }
// compression function F (RFC 7693 3.2): t = number of bytes hashed so far (two words), last = final block flag
#[verifier::opaque]
pub open spec fn F(h: Seq<u64>, t: int, blk: Seq<u8>, last: bool) -> Seq<u64> {
    let m = words_of(blk);
    let v0 = h + IV();
    let v1 = v0.update(12, v0[12] ^ ((t % TW()) as u64)).update(13, v0[13] ^ (((t / TW()) % TW()) as u64));
    let v2 = if last { v1.update(14, !v1[14]) } else { v1 };
    let v = rounds(v2, m, 12);
    Seq::new(8, |i: int| h[i] ^ v[i] ^ v[i + 8])
}
pub proof fn lemma_F_len(h: Seq<u64>, t: int, blk: Seq<u8>, last: bool) ensures F(h, t, blk, last).len() == 8 { reveal(F); }
// parameter block word 0: digest length, key length, fanout = depth = 1
pub open spec fn h_init(outlen: int, keylen: int) -> Seq<u64> { IV().update(0, IV()[0] ^ ((0x01010000 as u64) ^ ((keylen as u64) << 8) ^ (outlen as u64))) }
pub open spec fn zeros(n: int) -> Seq<u8> { Seq::new(n as nat, |i: int| 0u8) }
pub open spec fn words_le(w: Seq<u64>) -> Seq<u8> { Seq::new(8 * w.len(), |k: int| ((w[k / 8] as int / pow256_lit(k % 8)) % 256) as u8) }
pub open spec fn pow256_lit(i: int) -> int {
    if i == 0 { 1 } else if i == 1 { 0x100 } else if i == 2 { 0x10000 } else if i == 3 { 0x1000000 } else if i == 4 { 0x100000000 }
    else if i == 5 { 0x10000000000 } else if i == 6 { 0x1000000000000 } else { 0x100000000000000 }
}
// streaming state: chaining value, bytes compressed so far, and the bytes not yet compressed (1..=128 of them once any input
// has arrived: the last block is always held back, because it must be compressed with the final flag)
pub struct St { pub h: Seq<u64>, pub t: int, pub tail: Seq<u8> }
pub open spec fn init(outlen: int, key: Seq<u8>) -> St {
    St { h: h_init(outlen, key.len() as int), t: 0, tail: if key.len() > 0 { key + zeros(128 - key.len()) } else { Seq::<u8>::empty() } }
}
pub open spec fn absorb(s: St, inp: Seq<u8>) -> St
    decreases inp.len(), s.tail.len()
{
    if inp.len() == 0 || s.tail.len() > 128 { s }
    else if s.tail.len() + inp.len() <= 128 { St { h: s.h, t: s.t, tail: s.tail + inp } }
    else {
        let fill = 128 - s.tail.len();
        let t2 = (s.t + 128) % TT();
        let s2 = St { h: F(s.h, t2, s.tail + inp.subrange(0, fill), false), t: t2, tail: Seq::<u8>::empty() };
        absorb(s2, inp.subrange(fill, inp.len() as int))
    }
}
pub open spec fn fin(s: St, outlen: int) -> Seq<u8> {
    words_le(F(s.h, (s.t + s.tail.len()) % TT(), s.tail + zeros(128 - s.tail.len()), true)).subrange(0, outlen)
}
// BLAKE2 with digest length `outlen` (1..=64 bytes) and key (0..=64 bytes) of a message
pub open spec fn blake2(outlen: int, key: Seq<u8>, msg: Seq<u8>) -> Seq<u8> { fin(absorb(init(outlen, key), msg), outlen) }
// any split of the input gives the same state (C02): absorb(absorb(s, a), b) == absorb(s, a ++ b)
pub proof fn lemma_absorb_split(s: St, a: Seq<u8>, b: Seq<u8>)
    requires s.tail.len() <= 128
    ensures absorb(absorb(s, a), b) == absorb(s, a + b), absorb(s, a).tail.len() <= 128
    decreases a.len(), s.tail.len()
{
    if a.len() == 0 {
        assert(a + b =~= b);
    } else if s.tail.len() + a.len() <= 128 {
        let s1 = St { h: s.h, t: s.t, tail: s.tail + a };
        if b.len() == 0 {
            assert(a + b =~= a);
        } else if s1.tail.len() + b.len() <= 128 {
            assert(s.tail + (a + b) =~= (s.tail + a) + b);
        } else {
            let fill1 = 128 - s1.tail.len();
            let fill = 128 - s.tail.len();
            assert(s1.tail + b.subrange(0, fill1) =~= s.tail + (a + b).subrange(0, fill));
            assert(b.subrange(fill1, b.len() as int) =~= (a + b).subrange(fill, (a + b).len() as int));
        }
    } else {
        let fill = 128 - s.tail.len();
        let t2 = (s.t + 128) % TT();
        let s2 = St { h: F(s.h, t2, s.tail + a.subrange(0, fill), false), t: t2, tail: Seq::<u8>::empty() };
        assert(a.subrange(0, fill) =~= (a + b).subrange(0, fill));
        assert(a.subrange(fill, a.len() as int) + b =~= (a + b).subrange(fill, (a + b).len() as int));
        lemma_absorb_split(s2, a.subrange(fill, a.len() as int), b);
    }
}
