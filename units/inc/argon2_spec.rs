// ---- Argon2 spec: RFC 9106, over Seq<u64> blocks of 128 words (1 KiB) ---------------------------------------------------------
pub open spec fn M64() -> int { 0x1_0000_0000_0000_0000 }
pub open spec fn M32() -> int { 0x1_0000_0000 }
pub open spec fn lo32(x: u64) -> int { x as int % 0x1_0000_0000 }
pub open spec fn rotr64(x: u64, n: u32) -> u64 { (x >> (n as u64)) | (x << ((64 - n) as u64)) }
/// 3.6: the multiplication-hardened addition a + b + 2 * trunc(a) * trunc(b) mod 2^64
pub open spec fn fbla(x: u64, y: u64) -> u64 { ((x as int + y as int + 2 * (lo32(x) * lo32(y))) % 0x1_0000_0000_0000_0000) as u64 }
/// 3.6: GB(a, b, c, d) with rotations 32, 24, 16, 63, as a function of the four words
pub open spec fn gb4(a: u64, b: u64, c: u64, d: u64) -> (u64, u64, u64, u64) {
    let a1 = fbla(a, b); let d1 = rotr64(d ^ a1, 32);
    let c1 = fbla(c, d1); let b1 = rotr64(b ^ c1, 24);
    let a2 = fbla(a1, b1); let d2 = rotr64(d1 ^ a2, 16);
    let c2 = fbla(c1, d2); let b2 = rotr64(b1 ^ c2, 63);
    (a2, b2, c2, d2)
}
pub open spec fn gb(v: Seq<u64>, a: int, b: int, c: int, d: int) -> Seq<u64> {
    let t = gb4(v[a], v[b], v[c], v[d]);
    v.update(a, t.0).update(b, t.1).update(c, t.2).update(d, t.3)
}
/// 3.6: permutation P on the 4x4 matrix of 64-bit words v0..v15: GB on the four columns, then on the four diagonals
#[verifier::opaque]
pub open spec fn perm_p(v: Seq<u64>) -> Seq<u64> {
    let v1 = gb(gb(gb(gb(v, 0, 4, 8, 12), 1, 5, 9, 13), 2, 6, 10, 14), 3, 7, 11, 15);
    gb(gb(gb(gb(v1, 0, 5, 10, 15), 1, 6, 11, 12), 2, 7, 8, 13), 3, 4, 9, 14)
}
// 3.5: the 1024-byte block as an 8x8 matrix of 16-byte registers; row i = words 16i..16i+15, column i = registers i, 8+i, ..., 56+i,
// i.e. words 16k + 2i and 16k + 2i + 1 for k = 0..7
pub open spec fn col_idx(i: int, k: int) -> int { 16 * (k / 2) + 2 * i + k % 2 }
pub open spec fn gather_row(b: Seq<u64>, i: int) -> Seq<u64> { Seq::new(16, |k: int| b[16 * i + k]) }
pub open spec fn gather_col(b: Seq<u64>, i: int) -> Seq<u64> { Seq::new(16, |k: int| b[col_idx(i, k)]) }
pub open spec fn scatter_row(b: Seq<u64>, i: int, v: Seq<u64>) -> Seq<u64> {
    Seq::new(128, |j: int| if 16 * i <= j < 16 * i + 16 { v[j - 16 * i] } else { b[j] })
}
pub open spec fn scatter_col(b: Seq<u64>, i: int, v: Seq<u64>) -> Seq<u64> {
    Seq::new(128, |j: int| if (j % 16) / 2 == i { v[2 * (j / 16) + j % 2] } else { b[j] })
}
pub open spec fn rows(b: Seq<u64>, n: int) -> Seq<u64> decreases n {
    if n <= 0 { b } else { let q = rows(b, n - 1); scatter_row(q, n - 1, perm_p(gather_row(q, n - 1))) }
}
pub open spec fn cols(b: Seq<u64>, n: int) -> Seq<u64> decreases n {
    if n <= 0 { b } else { let q = cols(b, n - 1); scatter_col(q, n - 1, perm_p(gather_col(q, n - 1))) }
}
pub open spec fn xor_blk(a: Seq<u64>, b: Seq<u64>) -> Seq<u64> { Seq::new(128, |i: int| a[i] ^ b[i]) }
pub open spec fn zero_blk() -> Seq<u64> { Seq::new(128, |i: int| 0u64) }
/// 3.5 compression function cG(X, Y): R = X xor Y; P on every row of R gives Q; P on every column of Q gives Z; result Z xor R
#[verifier::opaque]
pub open spec fn cG(x: Seq<u64>, y: Seq<u64>) -> Seq<u64> { let r = xor_blk(x, y); xor_blk(cols(rows(r, 8), 8), r) }
/// 3.4: version 0x13, passes after the first: the new block is XORed onto the one it replaces
pub open spec fn G_xor(x: Seq<u64>, y: Seq<u64>, old_blk: Seq<u64>) -> Seq<u64> { xor_blk(cG(x, y), old_blk) }

// 3.4.2 mapping J1 to the reference block index, for the block at (pass, slice, index-in-segment) of a lane of q = 4 * seg blocks:
// |W| = blocks of the referenced lane that are finished and still hold the values the reference may use:
//   pass 0: the slices before the current one; later passes: the other three slices; plus, in the same lane, the blocks of the
//   current segment built so far except the previous one; in another lane, one less if this is the first block of a segment
pub open spec fn ref_area_size(seg: int, q: int, pass: int, slice: int, index: int, same_lane: bool) -> int {
    let finished = if pass == 0 { slice * seg } else { q - seg };
    if same_lane { finished + index - 1 } else if index == 0 { finished - 1 } else { finished }
}
/// x = J1^2 / 2^32; y = (|W| * x) / 2^32; zz = |W| - 1 - y; the window starts right after the current slice in later passes
#[verifier::opaque]
pub open spec fn index_alpha_spec(seg: int, q: int, pass: int, slice: int, index: int, j1: int, same_lane: bool) -> int {
    let w = ref_area_size(seg, q, pass, slice, index, same_lane);
    let x = (j1 * j1) / 0x1_0000_0000;
    let y = (w * x) / 0x1_0000_0000;
    let zz = w - 1 - y;
    let start = if pass != 0 && slice != 3 { (slice + 1) * seg } else { 0 };
    (start + zz) % q
}
// 3.2: memory geometry: m' = 4 * p * floor(m / 4p), q = m' / p columns per lane, segments of q / 4
pub open spec fn seg_len(m: int, p: int) -> int { m / (4 * p) }
// ---- 3.4: filling the memory matrix B[lane][column] (p lanes of q = 4 * seg columns), as a function on the whole matrix --------
pub struct Cfg { pub p: int, pub seg: int, pub t: int, pub y: int, pub v: int, pub mprime: int, pub m: int }
pub open spec fn lane_len(c: Cfg) -> int { 4 * c.seg }
/// 3.4.1.3: Argon2i always, Argon2id in the first two slices of the first pass: data-independent addressing
pub open spec fn data_indep(c: Cfg, pass: int, slice: int) -> bool { c.y == 1 || (c.y == 2 && pass == 0 && slice < 2) }
/// 3.4.1.2: Z = LE64(r) | LE64(l) | LE64(sl) | LE64(m') | LE64(t) | LE64(y) | LE64(counter) | ZERO
pub open spec fn addr_input(c: Cfg, pass: int, lane: int, slice: int, ctr: int) -> Seq<u64> {
    Seq::new(128, |k: int| if k == 0 { pass as u64 } else if k == 1 { lane as u64 } else if k == 2 { slice as u64 } else if k == 3 { c.mprime as u64 }
                          else if k == 4 { c.t as u64 } else if k == 5 { c.y as u64 } else if k == 6 { ctr as u64 } else { 0u64 })
}
/// the counter-th address block of a segment: cG(ZERO, cG(ZERO, Z)), counter starting from 1
pub open spec fn addr_block(c: Cfg, pass: int, lane: int, slice: int, ctr: int) -> Seq<u64> {
    cG(zero_blk(), cG(zero_blk(), addr_input(c, pass, lane, slice, ctr)))
}
/// J1 | J2 for the block at index i of the segment: the (i mod 128)-th word of address block i / 128 + 1
pub open spec fn addr_word(c: Cfg, pass: int, lane: int, slice: int, i: int) -> u64 { addr_block(c, pass, lane, slice, i / 128 + 1)[i % 128] }
/// one block: B[lane][col] = cG(B[lane][col - 1], B[l][z]) (XORed onto its old value in version 0x13 after the first pass), col = slice * seg + i,
/// col - 1 taken modulo q; J1 | J2 = first word of the previous block (data-dependent) or the address word; l = J2 mod p except in the
/// very first slice; z from J1 by 3.4.2
pub open spec fn step_block(c: Cfg, mem: Seq<Seq<u64>>, pass: int, lane: int, slice: int, i: int) -> Seq<Seq<u64>> {
    let q = lane_len(c);
    let col = slice * c.seg + i;
    let cur = lane * q + col;
    let prev = if col == 0 { lane * q + q - 1 } else { cur - 1 };
    let pr = if data_indep(c, pass, slice) { addr_word(c, pass, lane, slice, i) } else { mem[prev][0] };
    let j1 = pr as int % 0x1_0000_0000;
    let j2 = pr as int / 0x1_0000_0000;
    let rl = if pass == 0 && slice == 0 { lane } else { j2 % c.p };
    let z = index_alpha_spec(c.seg, q, pass, slice, i, j1, rl == lane);
    let refb = mem[rl * q + z];
    let newb = if c.v == 0x10 || pass == 0 { cG(mem[prev], refb) } else { G_xor(mem[prev], refb, mem[cur]) };
    mem.update(cur, newb)
}
/// the blocks start..n of one segment, in order
pub open spec fn fill_upto(c: Cfg, mem: Seq<Seq<u64>>, pass: int, lane: int, slice: int, start: int, n: int) -> Seq<Seq<u64>> decreases n - start {
    if n <= start { mem } else { step_block(c, fill_upto(c, mem, pass, lane, slice, start, n - 1), pass, lane, slice, n - 1) }
}
/// one segment: all of it, except that the first two columns of the matrix are the H' blocks of 3.2 step 3-4
pub open spec fn seg_start(pass: int, slice: int) -> int { if pass == 0 && slice == 0 { 2 } else { 0 } }
pub open spec fn fill_segment_spec(c: Cfg, mem: Seq<Seq<u64>>, pass: int, lane: int, slice: int) -> Seq<Seq<u64>> {
    fill_upto(c, mem, pass, lane, slice, seg_start(pass, slice), c.seg)
}
