pub assume_specification [u32::rotate_left] (x: u32, n: u32) -> (r: u32)
    requires 0 < n < 32
    ensures r == rotl32(x, n);
