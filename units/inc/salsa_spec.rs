// ---- salsa_spec: Bernstein, "Salsa20 specification" (quarterround, rowround, columnround, doubleround, expansion),
// HSalsa20/XSalsa20 ("Extending the Salsa20 nonce"), over Seq<u32> states and Seq<u8> strings -------------------------
pub open spec fn rotl32(x: u32, n: u32) -> u32 { (x << n) | (x >> ((32 - n) as u32)) }
pub open spec fn add32(a: u32, b: u32) -> u32 { a.wrapping_add(b) }
// quarterround(y0,y1,y2,y3) on state indices (a,b,c,d)
pub open spec fn sqr(s: Seq<u32>, a: int, b: int, c: int, d: int) -> Seq<u32> {
    let z1 = s[b] ^ rotl32(add32(s[a], s[d]), 7);
    let z2 = s[c] ^ rotl32(add32(z1, s[a]), 9);
    let z3 = s[d] ^ rotl32(add32(z2, z1), 13);
    let z0 = s[a] ^ rotl32(add32(z3, z2), 18);
    s.update(a, z0).update(b, z1).update(c, z2).update(d, z3)
}
pub open spec fn columnround(s: Seq<u32>) -> Seq<u32> { sqr(sqr(sqr(sqr(s, 0, 4, 8, 12), 5, 9, 13, 1), 10, 14, 2, 6), 15, 3, 7, 11) }
pub open spec fn rowround(s: Seq<u32>) -> Seq<u32> { sqr(sqr(sqr(sqr(s, 0, 1, 2, 3), 5, 6, 7, 4), 10, 11, 8, 9), 15, 12, 13, 14) }
pub open spec fn sdround(s: Seq<u32>) -> Seq<u32> { rowround(columnround(s)) }
pub open spec fn sdrounds(s: Seq<u32>, n: int) -> Seq<u32> decreases n { if n <= 0 { s } else { sdround(sdrounds(s, n - 1)) } }
pub open spec fn addback(a: Seq<u32>, b: Seq<u32>) -> Seq<u32> { Seq::new(16, |i: int| add32(a[i], b[i])) }
pub open spec fn words_le(w: Seq<u32>) -> Seq<u8> { Seq::new(4 * w.len(), |k: int| le4(w[k / 4] as int)[k % 4]) }
#[verifier::opaque]
pub open spec fn ss_block(s: Seq<u32>, rounds: int) -> Seq<u8> { words_le(addback(sdrounds(s, rounds / 2), s)) }
// HSalsa20: words 0,5,10,15,6,7,8,9 of the permuted state, no feed-forward
pub open spec fn hsalsa_spec(s: Seq<u32>, rounds: int) -> Seq<u8> {
    let t = sdrounds(s, rounds / 2);
    words_le(seq![t[0], t[5], t[10], t[15], t[6], t[7], t[8], t[9]])
}
// 64-bit block counter in words 8 (low) and 9 (high)
pub open spec fn sinc(s: Seq<u32>) -> Seq<u32> {
    let lo = add32(s[8], 1);
    if lo == 0 { s.update(8, lo).update(9, add32(s[9], 1)) } else { s.update(8, lo) }
}
pub open spec fn sadv(s: Seq<u32>, n: int) -> Seq<u32> decreases n { if n <= 0 { s } else { sadv(sinc(s), n - 1) } }
pub open spec fn word_at(b: Seq<u8>, i: int) -> u32 { le32(b.subrange(4 * i, 4 * i + 4)) }
// sigma = "expand 32-byte k", tau = "expand 16-byte k" as four little-endian words
pub open spec fn ss_consts(keylen: int) -> Seq<u32> {
    if keylen == 32 { seq![0x61707865u32, 0x3320646eu32, 0x79622d32u32, 0x6b206574u32] }
    else { seq![0x61707865u32, 0x3120646eu32, 0x79622d36u32, 0x6b206574u32] }
}
// Salsa20 expansion: (c0, k0, c1, n, c2, k1, c3) with k1 = k0 for a 16-byte key; n = nonce(8) || counter(8) = 0 at start,
// or the 16-byte HSalsa20 input
#[verifier::opaque]
pub open spec fn ss_init(key: Seq<u8>, nonce: Seq<u8>) -> Seq<u32> {
    let c = ss_consts(key.len() as int);
    let t = if key.len() == 32 { 4int } else { 0int };
    seq![c[0], word_at(key, 0), word_at(key, 1), word_at(key, 2), word_at(key, 3), c[1],
         word_at(nonce, 0), word_at(nonce, 1),
         if nonce.len() == 16 { word_at(nonce, 2) } else { 0u32 }, if nonce.len() == 16 { word_at(nonce, 3) } else { 0u32 },
         c[2], word_at(key, t), word_at(key, t + 1), word_at(key, t + 2), word_at(key, t + 3), c[3]]
}
pub open spec fn T32c() -> int { 0x1_0000_0000 }
pub open spec fn with_sctr(s: Seq<u32>, c: int) -> Seq<u32> { s.update(8, (c % T32c()) as u32).update(9, ((c / T32c()) % T32c()) as u32) }
pub open spec fn sctr_of(s: Seq<u32>) -> int { s[8] as int + s[9] as int * T32c() }
pub open spec fn sks_from(s: Seq<u32>, rounds: int, k: int) -> u8 { ss_block(sadv(s, k / 64), rounds)[k % 64] }
// Salsa20 keystream of (key, 64-bit nonce) from block ctr0: block j uses the 64-bit counter ctr0 + j
pub open spec fn salsa_ks(key: Seq<u8>, nonce: Seq<u8>, rounds: int, ctr0: int, k: int) -> u8 {
    ss_block(with_sctr(ss_init(key, nonce), ctr0 + k / 64), rounds)[k % 64]
}
pub open spec fn xsalsa_ks(key: Seq<u8>, nonce: Seq<u8>, rounds: int, ctr0: int, k: int) -> u8 {
    let sub = hsalsa_spec(ss_init(key, nonce.subrange(0, 16)), rounds);
    ss_block(with_sctr(ss_init(sub, nonce.subrange(16, 24)), ctr0 + k / 64), rounds)[k % 64]
}
pub proof fn lemma_add32(a: u32, b: u32)
    ensures add32(a, b) as int == (a as int + b as int) % 0x1_0000_0000
{
    if a as int + b as int >= 0x1_0000_0000 { assert(add32(a, b) as int == a as int + b as int - 0x1_0000_0000); }
}
pub proof fn lemma_sadv_step(s: Seq<u32>, n: int)
    requires n >= 0
    ensures sadv(s, n + 1) == sinc(sadv(s, n))
    decreases n
{
    if n > 0 { lemma_sadv_step(sinc(s), n - 1); }
    else { assert(sadv(s, 1) == sadv(sinc(s), 0)); }
}
pub proof fn lemma_ctr_step(c: int)
    requires c >= 0
    ensures (c % 0x1_0000_0000 == 0xffff_ffff) ==> ((c + 1) % 0x1_0000_0000 == 0 && (c + 1) / 0x1_0000_0000 == c / 0x1_0000_0000 + 1),
            (c % 0x1_0000_0000 != 0xffff_ffff) ==> ((c + 1) % 0x1_0000_0000 == c % 0x1_0000_0000 + 1 && (c + 1) / 0x1_0000_0000 == c / 0x1_0000_0000),
            ((c % 0x1_0000_0000) + 1) % 0x1_0000_0000 == (c + 1) % 0x1_0000_0000
{
}
pub proof fn lemma_sadv(s: Seq<u32>, n: int)
    requires n >= 0, s.len() == 16
    ensures sadv(s, n) == with_sctr(s, sctr_of(s) + n)
    decreases n
{
    if n == 0 { assert(with_sctr(s, sctr_of(s)) =~= s); }
    else {
        lemma_sadv_step(s, n - 1);
        lemma_sadv(s, n - 1);
        let c = sctr_of(s) + n - 1;
        let p = with_sctr(s, c);
        let lo = (c % 0x1_0000_0000) as u32;
        let hi = ((c / 0x1_0000_0000) % 0x1_0000_0000) as u32;
        assert(p[8] == lo && p[9] == hi);
        lemma_add32(lo, 1);
        lemma_add32(hi, 1);
        lemma_ctr_step(c);
        lemma_ctr_step(c / 0x1_0000_0000);
        let q = with_sctr(s, c + 1);
        assert(q[8] == ((c + 1) % 0x1_0000_0000) as u32);
        assert(q[9] == (((c + 1) / 0x1_0000_0000) % 0x1_0000_0000) as u32);
        assert(sinc(p)[8] == q[8]);
        assert(sinc(p)[9] == q[9]);
        assert(sinc(p) =~= q);
    }
}
pub proof fn lemma_ss_init_facts(key: Seq<u8>, nonce: Seq<u8>)
    ensures ss_init(key, nonce).len() == 16,
            nonce.len() == 8 ==> ss_init(key, nonce)[8] == 0 && ss_init(key, nonce)[9] == 0
{
    reveal(ss_init);
}
pub proof fn lemma_ss_block_len(s: Seq<u32>, rounds: int)
    ensures ss_block(s, rounds).len() == 64
{
    reveal(ss_block);
}
// stream view of a Salsa context
pub open spec fn ssv(st: Seq<u32>, output: Seq<u8>, offset: int, rounds: int, k: int) -> u8 {
    if offset + k < 64 { output[offset + k] } else { ss_block(sadv(st, (offset + k) / 64 - 1), rounds)[(offset + k) % 64] }
}
pub proof fn lemma_ssv_update(st: Seq<u32>, o1: Seq<u8>, rounds: int, k: int)
    requires k >= 0
    ensures ssv(sinc(st), ss_block(st, rounds), 0, rounds, k) == ssv(st, o1, 64, rounds, k)
{
    if k >= 64 {
        let n = k / 64;
        assert(n >= 1);
        assert((64 + k) / 64 - 1 == n);
        assert((64 + k) % 64 == k % 64);
        assert(sadv(st, n) == sadv(sinc(st), n - 1));
    } else {
        assert((64 + k) / 64 - 1 == 0);
        assert((64 + k) % 64 == k);
        assert(sadv(st, 0) == st);
    }
}
