// ---- aead_spec: RFC 8439 section 2.8 (AEAD_CHACHA20_POLY1305), over the chacha_spec and poly1305_spec functions ----------
pub open spec fn zeros(n: int) -> Seq<u8> { Seq::new(n as nat, |i: int| 0u8) }
pub open spec fn pad16_spec(n: int) -> Seq<u8> { zeros((16 - n % 16) % 16) }
pub open spec fn le8(x: int) -> Seq<u8> { le4(x % 0x1_0000_0000) + le4((x / 0x1_0000_0000) % 0x1_0000_0000) }
// mac_data = aad | pad16(aad) | ciphertext | pad16(ciphertext) | le64(len(aad)) | le64(len(ciphertext))
pub open spec fn mac_data(aad: Seq<u8>, ct: Seq<u8>) -> Seq<u8> {
    aad + pad16_spec(aad.len() as int) + ct + pad16_spec(ct.len() as int) + le8(aad.len() as int) + le8(ct.len() as int)
}
// one-time key: first 32 bytes of keystream block 0
pub open spec fn otk(key: Seq<u8>, nonce: Seq<u8>, rounds: int) -> Seq<u8> { Seq::new(32, |k: int| ietf_ks(key, nonce, rounds, 0, k)) }
// data is XORed with the keystream from block 1 on
pub open spec fn aead_xor(key: Seq<u8>, nonce: Seq<u8>, rounds: int, data: Seq<u8>) -> Seq<u8> {
    Seq::new(data.len(), |k: int| data[k] ^ ietf_ks(key, nonce, rounds, 0, 64 + k))
}
pub open spec fn aead_tag(key: Seq<u8>, nonce: Seq<u8>, rounds: int, aad: Seq<u8>, ct: Seq<u8>) -> Seq<u8> {
    poly1305_mac(otk(key, nonce, rounds), mac_data(aad, ct))
}
