pub assume_specification<T: Clone> [<[T]>::to_vec] (s: &[T]) -> (r: Vec<T>)
    ensures r@.len() == s@.len(), forall|i: int| 0 <= i < s@.len() ==> call_ensures(T::clone, (&s@[i],), #[trigger] r@[i]);
