// ---- contract-only stubs of cryptoutil functions that use raw pointers / try_from on sub-slices; each contract is the
// assertion text of Kani harnesses on the real function (kani/cryptoutil.rs: cryptoutil_write_u32v_le_*, cryptoutil_xor_keystream_mut)
#[verifier::external_body]
pub fn write_u32v_le(dst: &mut [u8], input: &[u32])
    requires old(dst).len() == 4 * input.len()
    ensures final(dst)@ == words_le(input@)
{ unimplemented!() }
#[verifier::external_body]
pub fn xor_keystream_mut(buf: &mut [u8], keystream: &[u8])
    requires old(buf).len() <= keystream.len()
    ensures final(buf).len() == old(buf).len(),
            forall|i: int| 0 <= i < old(buf).len() ==> #[trigger] final(buf)[i] == old(buf)[i] ^ keystream[i]
{ unimplemented!() }
