// ---- gf25519_spec: integers modulo p = 2^255 - 19, five 51-bit limbs -----------------------------------------------------
pub open spec fn e51() -> int { 0x8000000000000 }
pub open spec fn e102() -> int { 0x40000000000000000000000000 }
pub open spec fn e153() -> int { (0x8000000000000int * 0x40000000000000000000000000int) }
pub open spec fn e204() -> int { (0x40000000000000000000000000int * 0x40000000000000000000000000int) }
pub open spec fn e255() -> int { 0x8000000000000int * (0x40000000000000000000000000int * 0x40000000000000000000000000int) }
pub open spec fn P() -> int { 0x8000000000000int * (0x40000000000000000000000000int * 0x40000000000000000000000000int) - 19 }
pub open spec fn lv(a0: int, a1: int, a2: int, a3: int, a4: int) -> int { a0 + a1 * e51() + a2 * e102() + a3 * e153() + a4 * e204() }
/// x and y are the same field element
pub open spec fn feq(x: int, y: int) -> bool { (x - y) % P() == 0 }
pub open spec fn fadd(a: int, b: int) -> int { (a + b) % P() }
pub open spec fn fsub(a: int, b: int) -> int { (a - b) % P() }
pub open spec fn fmul(a: int, b: int) -> int { (a * b) % P() }
pub open spec fn fpow(a: int, n: nat) -> int decreases n { if n == 0 { 1int % P() } else { fmul(a, fpow(a, (n - 1) as nat)) } }
pub open spec fn fsq_iter(a: int, n: nat) -> int decreases n { if n == 0 { a % P() } else { fmul(fsq_iter(a, (n - 1) as nat), fsq_iter(a, (n - 1) as nat)) } }
pub open spec fn pow2n(n: nat) -> nat decreases n { if n == 0 { 1 } else { 2 * pow2n((n - 1) as nat) } }

pub proof fn lemma_P_pos() ensures P() > 0, P() == 0x7fffffffffffffffffffffffffffffffffffffffffffffffffffffffffffffedint {}
pub proof fn lemma_feq_mod(x: int, y: int)
    requires feq(x, y)
    ensures x % P() == y % P()
{
    lemma_P_pos();
    vstd::arithmetic::div_mod::lemma_mod_equivalence(x, y, P());
}
pub proof fn lemma_mod_feq(x: int, y: int)
    requires x % P() == y % P()
    ensures feq(x, y)
{
    lemma_P_pos();
    vstd::arithmetic::div_mod::lemma_mod_equivalence(x, y, P());
}
pub proof fn lemma_feq_refl(x: int) ensures feq(x, x) { lemma_P_pos(); }
pub proof fn lemma_feq_trans(x: int, y: int, z: int)
    requires feq(x, y), feq(y, z)
    ensures feq(x, z)
{
    lemma_feq_mod(x, y); lemma_feq_mod(y, z); lemma_mod_feq(x, z);
}
// congruences: if r == a op b (mod p) then r mod p == (a mod p) op (b mod p) (mod p)
pub proof fn lemma_fadd(r: int, a: int, b: int)
    requires feq(r, a + b)
    ensures r % P() == fadd(a % P(), b % P())
{
    lemma_P_pos();
    lemma_feq_mod(r, a + b);
    vstd::arithmetic::div_mod::lemma_add_mod_noop(a, b, P());
}
pub proof fn lemma_fsub(r: int, a: int, b: int)
    requires feq(r, a - b)
    ensures r % P() == fsub(a % P(), b % P())
{
    lemma_P_pos();
    lemma_feq_mod(r, a - b);
    vstd::arithmetic::div_mod::lemma_sub_mod_noop(a, b, P());
}
pub proof fn lemma_fmul(r: int, a: int, b: int)
    requires feq(r, a * b)
    ensures r % P() == fmul(a % P(), b % P())
{
    lemma_P_pos();
    lemma_feq_mod(r, a * b);
    vstd::arithmetic::div_mod::lemma_mul_mod_noop(a, b, P());
}
pub proof fn lemma_multiple_mod(k: int)
    ensures (k * P()) % P() == 0
{
    lemma_P_pos();
    vstd::arithmetic::div_mod::lemma_mod_multiples_basic(k, P());
}
// byte-level encodings (RFC 7748 section 5: little-endian; decoding masks bit 255, encoding is the canonical representative)
pub open spec fn le_bytes_val(s: Seq<u8>) -> int decreases s.len() { if s.len() == 0 { 0 } else { s[0] as int + 256 * le_bytes_val(s.drop_first()) } }
pub open spec fn pow256(n: nat) -> int decreases n { if n == 0 { 1 } else { 256 * pow256((n - 1) as nat) } }
pub open spec fn fe_dec(b: Seq<u8>) -> int { (le_bytes_val(b) % e255()) % P() }
pub open spec fn fe_enc(a: int) -> Seq<u8> { Seq::new(32, |i: int| ((a / pow256(i as nat)) % 256) as u8) }
// ---- exponent arithmetic for the addition chains (invert: a^(p-2), pow25523: a^((p-5)/8))
pub proof fn lemma_fpow_range(a: int, n: nat) ensures 0 <= fpow(a, n) < P() decreases n { lemma_P_pos(); if n > 0 { lemma_fpow_range(a, (n - 1) as nat); } }
pub proof fn lemma_fmul_assoc(x: int, y: int, z: int)
    ensures fmul(fmul(x, y), z) == fmul(x, fmul(y, z))
{
    lemma_P_pos();
    vstd::arithmetic::div_mod::lemma_mul_mod_noop_left(x * y, z, P());
    vstd::arithmetic::div_mod::lemma_mul_mod_noop_right(x, y * z, P());
    assert((x * y) * z == x * (y * z)) by (nonlinear_arith);
}
pub proof fn lemma_fpow_add(a: int, m: nat, n: nat)
    ensures fmul(fpow(a, m), fpow(a, n)) == fpow(a, m + n)
    decreases m
{
    lemma_P_pos();
    if m == 0 {
        lemma_fpow_range(a, n);
        vstd::arithmetic::div_mod::lemma_mul_mod_noop_left(1, fpow(a, n), P());
        assert(fmul(1int % P(), fpow(a, n)) == (1 * fpow(a, n)) % P());
        vstd::arithmetic::div_mod::lemma_small_mod(fpow(a, n) as nat, P() as nat);
    } else {
        lemma_fpow_add(a, (m - 1) as nat, n);
        lemma_fmul_assoc(a, fpow(a, (m - 1) as nat), fpow(a, n));
        assert(fpow(a, m + n) == fmul(a, fpow(a, ((m + n) - 1) as nat)));
        assert((m - 1) as nat + n == ((m + n) - 1) as nat);
    }
}
pub proof fn lemma_pow2n_add(m: nat, n: nat) ensures pow2n(m + n) == pow2n(m) * pow2n(n) decreases m {
    if m > 0 {
        lemma_pow2n_add((m - 1) as nat, n);
        assert((m - 1) as nat + n == ((m + n) - 1) as nat);
        assert(2 * (pow2n((m - 1) as nat) * pow2n(n)) == (2 * pow2n((m - 1) as nat)) * pow2n(n)) by (nonlinear_arith);
    } else { assert(1 * pow2n(n) == pow2n(n)); }
}
pub proof fn lemma_fsq_iter_pow(a: int, m: nat, n: nat)
    ensures fsq_iter(fpow(a, m), n) == fpow(a, m * pow2n(n))
    decreases n
{
    lemma_P_pos();
    if n == 0 {
        lemma_fpow_range(a, m);
        vstd::arithmetic::div_mod::lemma_small_mod(fpow(a, m) as nat, P() as nat);
        assert(m * 1 == m);
    } else {
        lemma_fsq_iter_pow(a, m, (n - 1) as nat);
        let e = m * pow2n((n - 1) as nat);
        lemma_fpow_add(a, e, e);
        assert(e + e == m * pow2n(n)) by (nonlinear_arith) requires e == m * pow2n((n - 1) as nat), pow2n(n) == 2 * pow2n((n - 1) as nat);
    }
}
pub proof fn lemma_fpow_one(a: int) requires 0 <= a < P() ensures fpow(a, 1) == a {
    lemma_P_pos();
    assert(fpow(a, 0) == 1int % P());
    vstd::arithmetic::div_mod::lemma_small_mod(1, P() as nat);
    assert(fpow(a, 1) == fmul(a, 1));
    vstd::arithmetic::div_mod::lemma_small_mod(a as nat, P() as nat);
}
// r == x * y (mod p), x == a^m, y == a^n  ==>  r == a^(m+n)
pub proof fn lemma_chain_mul_step(r: int, x: int, y: int, a: int, m: nat, n: nat)
    requires feq(r, x * y), x % P() == fpow(a, m), y % P() == fpow(a, n)
    ensures r % P() == fpow(a, m + n)
{
    lemma_fmul(r, x, y);
    lemma_fpow_add(a, m, n);
}
// r == sq^k(x) (as field elements), x == a^m  ==>  r == a^(m * 2^k)
pub proof fn lemma_chain_sq_step(rv: int, xv: int, a: int, m: nat, k: nat, e: nat)
    requires rv == fsq_iter(xv, k), xv == fpow(a, m), e == m * pow2n(k)
    ensures rv == fpow(a, e)
{
    lemma_fsq_iter_pow(a, m, k);
}
pub proof fn lemma_pow2n_vals()
    ensures pow2n(1) == 2, pow2n(2) == 4, pow2n(5) == 32, pow2n(10) == 1024, pow2n(20) == 1048576,
            pow2n(50) == 0x4000000000000, pow2n(100) == 0x10000000000000000000000000
{
    assert(pow2n(1) == 2 && pow2n(2) == 4 && pow2n(5) == 32 && pow2n(10) == 1024 && pow2n(20) == 1048576) by (compute_only);
    assert(pow2n(50) == 0x4000000000000) by (compute_only);
    assert(pow2n(100) == 0x10000000000000000000000000) by (compute_only);
}
/// multiplicative inverse by Fermat: a^(p-2); square-root helper exponent (p-5)/8
pub open spec fn finv(a: int) -> int { fpow(a, (P() - 2) as nat) }
pub open spec fn fpow25523(a: int) -> int { fpow(a, ((P() - 5) / 8) as nat) }
pub open spec fn m1(k: nat) -> nat { (pow2n(k) - 1) as nat }
pub proof fn lemma_pow2n_pos(k: nat) ensures pow2n(k) >= 1 decreases k { if k > 0 { lemma_pow2n_pos((k - 1) as nat); } }
// (2^K - 1) * 2^n + (2^n - 1) == 2^(K+n) - 1
pub proof fn lemma_m1_step(bk: nat, n: nat)
    ensures m1(bk) * pow2n(n) + m1(n) == m1(bk + n)
{
    lemma_pow2n_pos(bk); lemma_pow2n_pos(n); lemma_pow2n_add(bk, n);
    assert((pow2n(bk) - 1) * pow2n(n) + (pow2n(n) - 1) == pow2n(bk) * pow2n(n) - 1) by (nonlinear_arith);
}
pub proof fn lemma_pow2n_255()
    ensures pow2n(255) == e255(), pow2n(255) == pow2n(250) * 32, pow2n(255) == pow2n(252) * 8, pow2n(252) == pow2n(250) * 4
{
    assert(pow2n(51) == 0x8000000000000) by (compute_only);
    lemma_pow2n_add(51, 51); lemma_pow2n_add(102, 102); lemma_pow2n_add(204, 51);
    assert(pow2n(102) == 0x40000000000000000000000000);
    assert(pow2n(204) == e204());
    assert(e204() * e51() == e255()) by (nonlinear_arith)
        requires e204() == 0x40000000000000000000000000int * 0x40000000000000000000000000int, e51() == 0x8000000000000,
                 e255() == 0x8000000000000int * (0x40000000000000000000000000int * 0x40000000000000000000000000int);
    lemma_pow2n_add(250, 5); lemma_pow2n_add(252, 3); lemma_pow2n_add(250, 2);
    assert(pow2n(5) == 32 && pow2n(3) == 8 && pow2n(2) == 4) by (compute_only);
}
