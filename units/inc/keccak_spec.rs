// ---- Keccak-f[1600] (FIPS 202 section 3.2-3.4) on 25 lanes of 64 bits, lane (x, y) at index 5y + x ----------------------------
pub open spec fn rotl64(x: u64, n: u32) -> u64 { if n == 0 { x } else { (x << (n as u64)) | (x >> ((64 - n) as u64)) } }
/// rho offsets (FIPS 202 Table 2, modulo 64), indexed 5y + x
pub open spec fn RHO() -> Seq<u32> { seq![0u32, 1, 62, 28, 27, 36, 44, 6, 55, 20, 3, 10, 43, 25, 39, 41, 45, 15, 21, 8, 18, 2, 61, 56, 14] }
/// round constants RC[i_r] (FIPS 202 3.2.5, the 24 values of rc(t) assembled)
pub open spec fn RCS(i: int) -> u64 {
    if i == 0 { 0x0000000000000001u64 } else if i == 1 { 0x0000000000008082u64 } else if i == 2 { 0x800000000000808au64 }
    else if i == 3 { 0x8000000080008000u64 } else if i == 4 { 0x000000000000808bu64 } else if i == 5 { 0x0000000080000001u64 }
    else if i == 6 { 0x8000000080008081u64 } else if i == 7 { 0x8000000000008009u64 } else if i == 8 { 0x000000000000008au64 }
    else if i == 9 { 0x0000000000000088u64 } else if i == 10 { 0x0000000080008009u64 } else if i == 11 { 0x000000008000000au64 }
    else if i == 12 { 0x000000008000808bu64 } else if i == 13 { 0x800000000000008bu64 } else if i == 14 { 0x8000000000008089u64 }
    else if i == 15 { 0x8000000000008003u64 } else if i == 16 { 0x8000000000008002u64 } else if i == 17 { 0x8000000000000080u64 }
    else if i == 18 { 0x000000000000800au64 } else if i == 19 { 0x800000008000000au64 } else if i == 20 { 0x8000000080008081u64 }
    else if i == 21 { 0x8000000000008080u64 } else if i == 22 { 0x0000000080000001u64 } else { 0x8000000080008008u64 }
}
pub open spec fn thC(a: Seq<u64>, x: int) -> u64 { a[x] ^ a[5 + x] ^ a[10 + x] ^ a[15 + x] ^ a[20 + x] }
pub open spec fn thD(a: Seq<u64>, x: int) -> u64 { thC(a, (x + 4) % 5) ^ rotl64(thC(a, (x + 1) % 5), 1) }
/// theta: A'[x, y] = A[x, y] ^ D[x]
pub open spec fn theta(a: Seq<u64>) -> Seq<u64> { Seq::new(25, |j: int| a[j] ^ thD(a, j % 5)) }
/// rho then pi: A'[x, y] = rot(A[x', y'], r[x', y']) with (x', y') = ((x + 3y) mod 5, x)
pub open spec fn rhopi(a: Seq<u64>) -> Seq<u64> {
    Seq::new(25, |j: int| { let x = j % 5; let y = j / 5; let src = 5 * x + (x + 3 * y) % 5; rotl64(a[src], RHO()[src]) })
}
/// chi: A'[x, y] = A[x, y] ^ (!A[x+1, y] & A[x+2, y])
pub open spec fn chi(a: Seq<u64>) -> Seq<u64> {
    Seq::new(25, |j: int| { let x = j % 5; let y = j / 5; a[j] ^ (!a[5 * y + (x + 1) % 5] & a[5 * y + (x + 2) % 5]) })
}
pub open spec fn iota(a: Seq<u64>, i: int) -> Seq<u64> { a.update(0, a[0] ^ RCS(i)) }
pub open spec fn kround(a: Seq<u64>, i: int) -> Seq<u64> { iota(chi(rhopi(theta(a))), i) }
pub open spec fn krounds(a: Seq<u64>, n: int) -> Seq<u64> decreases n { if n <= 0 { a } else { kround(krounds(a, n - 1), n - 1) } }
pub open spec fn le64(b: Seq<u8>) -> u64 {
    (b[0] as int + b[1] as int * 0x100 + b[2] as int * 0x10000 + b[3] as int * 0x1000000 + b[4] as int * 0x100000000
     + b[5] as int * 0x10000000000 + b[6] as int * 0x1000000000000 + b[7] as int * 0x100000000000000) as u64
}
pub open spec fn le_words64(b: Seq<u8>) -> Seq<u64> { Seq::new((b.len() / 8) as nat, |i: int| le64(b.subrange(8 * i, 8 * i + 8))) }
pub open spec fn pow256_lit(i: int) -> int {
    if i == 0 { 1 } else if i == 1 { 0x100 } else if i == 2 { 0x10000 } else if i == 3 { 0x1000000 } else if i == 4 { 0x100000000 }
    else if i == 5 { 0x10000000000 } else if i == 6 { 0x1000000000000 } else { 0x100000000000000 }
}
pub open spec fn words_le64(w: Seq<u64>) -> Seq<u8> { Seq::new(8 * w.len(), |k: int| ((w[k / 8] as int / pow256_lit(k % 8)) % 256) as u8) }
// the in-place lane chase of Keccak-compact64 (tables PIL, ROTC): state and carried lane after k steps
pub open spec fn PILS() -> Seq<int> { seq![10int, 7, 11, 17, 18, 3, 5, 16, 8, 21, 24, 4, 15, 23, 19, 13, 12, 2, 20, 14, 22, 9, 6, 1] }
pub open spec fn ROTCS() -> Seq<u32> { seq![1u32, 3, 6, 10, 15, 21, 28, 36, 45, 55, 2, 14, 27, 41, 56, 8, 25, 43, 62, 18, 39, 61, 20, 44] }
pub open spec fn chase(a: Seq<u64>, k: int) -> (Seq<u64>, u64) decreases k {
    if k <= 0 { (a, a[1]) } else { let p = chase(a, k - 1); (p.0.update(PILS()[k - 1], rotl64(p.1, ROTCS()[k - 1])), p.0[PILS()[k - 1]]) }
}
