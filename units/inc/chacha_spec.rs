// ---- chacha_spec: RFC 8439 sections 2.1-2.4 / Bernstein's ChaCha, over Seq<u32> states and Seq<u8> strings ------------
pub open spec fn rotl32(x: u32, n: u32) -> u32 { (x << n) | (x >> ((32 - n) as u32)) }
// addition modulo 2^32 is *defined* as wrapping_add (vstd's spec of it is callable in spec code), see DESIGN.md section 2
pub open spec fn add32(a: u32, b: u32) -> u32 { a.wrapping_add(b) }
// RFC 8439 2.1 quarter round on indices (a,b,c,d) of a 16-word state
pub open spec fn qr(s: Seq<u32>, a: int, b: int, c: int, d: int) -> Seq<u32> {
    let a1 = add32(s[a], s[b]); let d1 = rotl32(s[d] ^ a1, 16);
    let c1 = add32(s[c], d1);   let b1 = rotl32(s[b] ^ c1, 12);
    let a2 = add32(a1, b1);     let d2 = rotl32(d1 ^ a2, 8);
    let c2 = add32(c1, d2);     let b2 = rotl32(b1 ^ c2, 7);
    s.update(a, a2).update(b, b2).update(c, c2).update(d, d2)
}
// RFC 8439 2.3: column round then diagonal round
pub open spec fn dround(s: Seq<u32>) -> Seq<u32> {
    let s1 = qr(qr(qr(qr(s, 0, 4, 8, 12), 1, 5, 9, 13), 2, 6, 10, 14), 3, 7, 11, 15);
    qr(qr(qr(qr(s1, 0, 5, 10, 15), 1, 6, 11, 12), 2, 7, 8, 13), 3, 4, 9, 14)
}
pub open spec fn drounds(s: Seq<u32>, n: int) -> Seq<u32> decreases n { if n <= 0 { s } else { dround(drounds(s, n - 1)) } }
pub open spec fn addback(a: Seq<u32>, b: Seq<u32>) -> Seq<u32> { Seq::new(16, |i: int| add32(a[i], b[i])) }
// little-endian serialisation of a word sequence
pub open spec fn words_le(w: Seq<u32>) -> Seq<u8> { Seq::new(4 * w.len(), |k: int| le4(w[k / 4] as int)[k % 4]) }
// the ChaCha block function: `rounds` rounds, feed-forward, serialise (RFC 8439 2.3)
#[verifier::opaque]
pub open spec fn cc_block(s: Seq<u32>, rounds: int) -> Seq<u8> { words_le(addback(drounds(s, rounds / 2), s)) }
// HChaCha: words 0..3 and 12..15 of the permuted state, no feed-forward (XChaCha construction)
pub open spec fn hchacha_spec(s: Seq<u32>, rounds: int) -> Seq<u8> {
    let t = drounds(s, rounds / 2);
    words_le(t.subrange(0, 4) + t.subrange(12, 16))
}
// block counter: 32-bit (IETF, word 12) and 64-bit (original; low word 12, high word 13)
pub open spec fn inc32(s: Seq<u32>) -> Seq<u32> { s.update(12, add32(s[12], 1)) }
pub open spec fn inc64(s: Seq<u32>) -> Seq<u32> {
    let lo = add32(s[12], 1);
    if lo == 0 { s.update(12, lo).update(13, add32(s[13], 1)) } else { s.update(12, lo) }
}
pub open spec fn inc(s: Seq<u32>, wide: bool) -> Seq<u32> { if wide { inc64(s) } else { inc32(s) } }
pub open spec fn adv(s: Seq<u32>, n: int, wide: bool) -> Seq<u32> decreases n { if n <= 0 { s } else { adv(inc(s, wide), n - 1, wide) } }
// state layout: constants | key words (a 16-byte key is used twice, with the tau constants) | counter/nonce words
pub open spec fn cc_consts(keylen: int) -> Seq<u32> {
    if keylen == 32 { seq![0x61707865u32, 0x3320646eu32, 0x79622d32u32, 0x6b206574u32] }      // "expand 32-byte k"
    else { seq![0x61707865u32, 0x3120646eu32, 0x79622d36u32, 0x6b206574u32] }                   // "expand 16-byte k"
}
pub open spec fn word_at(b: Seq<u8>, i: int) -> u32 { le32(b.subrange(4 * i, 4 * i + 4)) }
pub open spec fn cc_keywords(key: Seq<u8>) -> Seq<u32> {
    if key.len() == 32 { Seq::new(8, |i: int| word_at(key, i)) } else { Seq::new(8, |i: int| word_at(key, i % 4)) }
}
// words 12..15 at block counter 0: 16-byte nonce fills all four (HChaCha input), 12-byte nonce follows a 32-bit counter,
// 8-byte nonce follows a 64-bit counter
pub open spec fn cc_tail(nonce: Seq<u8>) -> Seq<u32> {
    if nonce.len() == 16 { seq![word_at(nonce, 0), word_at(nonce, 1), word_at(nonce, 2), word_at(nonce, 3)] }
    else if nonce.len() == 12 { seq![0u32, word_at(nonce, 0), word_at(nonce, 1), word_at(nonce, 2)] }
    else { seq![0u32, 0u32, word_at(nonce, 0), word_at(nonce, 1)] }
}
#[verifier::opaque]
pub open spec fn cc_init(key: Seq<u8>, nonce: Seq<u8>) -> Seq<u32> { cc_consts(key.len() as int) + cc_keywords(key) + cc_tail(nonce) }
// closed forms of the counter after n blocks
pub open spec fn T32c() -> int { 0x1_0000_0000 }
pub open spec fn with_ctr32(s: Seq<u32>, c: int) -> Seq<u32> { s.update(12, (c % T32c()) as u32) }
pub open spec fn with_ctr64(s: Seq<u32>, c: int) -> Seq<u32> { s.update(12, (c % T32c()) as u32).update(13, ((c / T32c()) % T32c()) as u32) }
pub open spec fn ctr32_of(s: Seq<u32>) -> int { s[12] as int }
pub open spec fn ctr64_of(s: Seq<u32>) -> int { s[12] as int + s[13] as int * T32c() }
// keystream byte k (k >= 0) of an engine state: block k/64 counted from the state's own counter
pub open spec fn ks_from(s: Seq<u32>, rounds: int, wide: bool, k: int) -> u8 { cc_block(adv(s, k / 64, wide), rounds)[k % 64] }
// RFC 8439 2.4 keystream of (key, 96-bit nonce) from block `ctr0`: block j uses counter (ctr0 + j) mod 2^32
pub open spec fn ietf_ks(key: Seq<u8>, nonce: Seq<u8>, rounds: int, ctr0: int, k: int) -> u8 {
    cc_block(with_ctr32(cc_init(key, nonce), ctr0 + k / 64), rounds)[k % 64]
}
// Bernstein's ChaCha keystream of (key, 64-bit nonce): 64-bit block counter
pub open spec fn orig_ks(key: Seq<u8>, nonce: Seq<u8>, rounds: int, ctr0: int, k: int) -> u8 {
    cc_block(with_ctr64(cc_init(key, nonce), ctr0 + k / 64), rounds)[k % 64]
}

pub proof fn lemma_add32(a: u32, b: u32)
    ensures add32(a, b) as int == (a as int + b as int) % 0x1_0000_0000
{
    if a as int + b as int >= 0x1_0000_0000 { assert(add32(a, b) as int == a as int + b as int - 0x1_0000_0000); }
}
pub proof fn lemma_adv_step(s: Seq<u32>, n: int, wide: bool)
    requires n >= 0
    ensures adv(s, n + 1, wide) == inc(adv(s, n, wide), wide)
    decreases n
{
    if n > 0 { lemma_adv_step(inc(s, wide), n - 1, wide); }
    else { assert(adv(s, 1, wide) == adv(inc(s, wide), 0, wide)); }
}
pub proof fn lemma_adv32(s: Seq<u32>, n: int)
    requires n >= 0, s.len() == 16
    ensures adv(s, n, false) == with_ctr32(s, ctr32_of(s) + n)
    decreases n
{
    if n == 0 { assert(with_ctr32(s, ctr32_of(s)) =~= s); }
    else {
        lemma_adv_step(s, n - 1, false);
        lemma_adv32(s, n - 1);
        let p = with_ctr32(s, ctr32_of(s) + n - 1);
        lemma_add32(p[12], 1);
        assert(inc32(p) =~= with_ctr32(s, ctr32_of(s) + n));
    }
}
pub proof fn lemma_ctr_step(c: int)
    requires c >= 0
    ensures (c % 0x1_0000_0000 == 0xffff_ffff) ==> ((c + 1) % 0x1_0000_0000 == 0 && (c + 1) / 0x1_0000_0000 == c / 0x1_0000_0000 + 1),
            (c % 0x1_0000_0000 != 0xffff_ffff) ==> ((c + 1) % 0x1_0000_0000 == c % 0x1_0000_0000 + 1 && (c + 1) / 0x1_0000_0000 == c / 0x1_0000_0000),
            ((c % 0x1_0000_0000) + 1) % 0x1_0000_0000 == (c + 1) % 0x1_0000_0000
{
}
pub proof fn lemma_adv64(s: Seq<u32>, n: int)
    requires n >= 0, s.len() == 16
    ensures adv(s, n, true) == with_ctr64(s, ctr64_of(s) + n)
    decreases n
{
    if n == 0 { assert(with_ctr64(s, ctr64_of(s)) =~= s); }
    else {
        lemma_adv_step(s, n - 1, true);
        lemma_adv64(s, n - 1);
        let c = ctr64_of(s) + n - 1;
        let p = with_ctr64(s, c);
        let lo = (c % 0x1_0000_0000) as u32;
        let hi = ((c / 0x1_0000_0000) % 0x1_0000_0000) as u32;
        assert(p[12] == lo && p[13] == hi);
        lemma_add32(lo, 1);
        lemma_add32(hi, 1);
        lemma_ctr_step(c);
        lemma_ctr_step(c / 0x1_0000_0000);
        let q = with_ctr64(s, c + 1);
        assert(q[12] == ((c + 1) % 0x1_0000_0000) as u32);
        assert(q[13] == (((c + 1) / 0x1_0000_0000) % 0x1_0000_0000) as u32);
        assert(inc64(p)[12] == q[12]);
        assert(inc64(p)[13] == q[13]);
        assert(inc64(p) =~= q);
    }
}
// XChaCha (draft-irtf-cfrg-xchacha): subkey = HChaCha(key, nonce[0..16]); then ChaCha with the subkey, a 32-bit block counter
// and the nonce 0^32 || nonce[16..24]
pub open spec fn xchacha_ks(key: Seq<u8>, nonce: Seq<u8>, rounds: int, ctr0: int, k: int) -> u8 {
    let sub = hchacha_spec(cc_init(key, nonce.subrange(0, 16)), rounds);
    cc_block(with_ctr32(cc_init(sub, nonce.subrange(16, 24)), ctr0 + k / 64), rounds)[k % 64]
}
pub proof fn lemma_cc_init_facts(key: Seq<u8>, nonce: Seq<u8>)
    ensures cc_init(key, nonce).len() == 16,
            nonce.len() == 12 ==> cc_init(key, nonce)[12] == 0,
            nonce.len() == 8 ==> cc_init(key, nonce)[12] == 0 && cc_init(key, nonce)[13] == 0
{
    reveal(cc_init);
}
pub proof fn lemma_cc_block_len(s: Seq<u32>, rounds: int)
    ensures cc_block(s, rounds).len() == 64
{
    reveal(cc_block);
}
