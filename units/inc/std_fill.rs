// ---- assumed std spec of <[T]>::fill (ASSUMED: listed in evidence)
pub assume_specification<T: core::clone::Clone> [<[T]>::fill] (s: &mut [T], value: T)
    ensures final(s).len() == old(s).len(), forall|i: int| 0 <= i < old(s).len() ==> #[trigger] final(s)[i] == value;
