// ---- rule X10 wrappers: u32::to_le_bytes routed through a same-signature stub (ASSUMED std semantics)
#[verifier::external_body]
pub fn __verif_u32_to_le_bytes(x: u32) -> (r: [u8; 4])
    ensures r@ == le4(x as int)
{ x.to_le_bytes() }
