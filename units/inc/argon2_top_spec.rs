// ---- Argon2 top level (RFC 9106 3.2, 3.3), over BLAKE2b as specified in blake2b_spec.rs ------------------------------------------
pub open spec fn H(outlen: int, msg: Seq<u8>) -> Seq<u8> { blake2(outlen, Seq::<u8>::empty(), msg) }
/// V_n of 3.3 given V_1: V_{i+1} = H^64(V_i)
pub open spec fn hp_chain(v1: Seq<u8>, n: int) -> Seq<u8> decreases n { if n <= 1 { v1 } else { H(64, hp_chain(v1, n - 1)) } }
/// 3.3 variable-length hash H'^T(A): T <= 64: H^T(LE32(T) | A); otherwise r = ceil(T/32) - 2, V_1 = H^64(LE32(T) | A),
/// V_{i+1} = H^64(V_i), V_{r+1} = H^(T - 32r)(V_r); the result is W_1 | ... | W_r | V_{r+1}, W_i = first 32 bytes of V_i
pub open spec fn hprime_spec(t: int, a: Seq<u8>) -> Seq<u8> {
    if t <= 64 { H(t, le4(t) + a) } else {
        let r = (t + 31) / 32 - 2;
        let v1 = H(64, le4(t) + a);
        Seq::new(t as nat, |k: int| if k < 32 * r { hp_chain(v1, k / 32 + 1)[k % 32] } else { H(t - 32 * r, hp_chain(v1, r))[k - 32 * r] })
    }
}
/// 3.2 step 1: H_0 = H^64(LE32(p) | LE32(T) | LE32(m) | LE32(t) | LE32(v) | LE32(y) | LE32(|P|) | P | LE32(|S|) | S | LE32(|K|) | K | LE32(|X|) | X)
pub open spec fn h0_spec(c: Cfg, taglen: int, pwd: Seq<u8>, salt: Seq<u8>, key: Seq<u8>, aad: Seq<u8>) -> Seq<u8> {
    H(64, le4(c.p) + le4(taglen) + le4(c.m) + le4(c.t) + le4(c.v) + le4(c.y) + le4(pwd.len() as int) + pwd + le4(salt.len() as int) + salt
          + le4(key.len() as int) + key + le4(aad.len() as int) + aad)
}
/// a 1024-byte string as 128 little-endian 64-bit words, and back
pub open spec fn blk_of_bytes(b: Seq<u8>) -> Seq<u64> { Seq::new(128, |i: int| le_word(b.subrange(8 * i, 8 * i + 8))) }
pub open spec fn bytes_of_blk(w: Seq<u64>) -> Seq<u8> { words_le(w) }
/// 3.2 steps 3-4: B[i][0] = H'^1024(H_0 | LE32(0) | LE32(i)), B[i][1] = H'^1024(H_0 | LE32(1) | LE32(i)) for the first n lanes
pub open spec fn init_lanes(c: Cfg, h0: Seq<u8>, mem: Seq<Seq<u64>>, n: int) -> Seq<Seq<u64>> decreases n {
    if n <= 0 { mem } else {
        let q = lane_len(c);
        init_lanes(c, h0, mem, n - 1).update((n - 1) * q, blk_of_bytes(hprime_spec(1024, h0 + le4(0) + le4(n - 1))))
                                     .update((n - 1) * q + 1, blk_of_bytes(hprime_spec(1024, h0 + le4(1) + le4(n - 1))))
    }
}
/// 3.2 steps 5-6 / 3.4: passes, within a pass the four slices, within a slice every lane's segment (a segment only reads blocks of
/// other lanes from earlier slices, so the order of the lanes within a slice does not matter; they are taken in index order)
pub open spec fn fill_lanes(c: Cfg, mem: Seq<Seq<u64>>, pass: int, slice: int, n: int) -> Seq<Seq<u64>> decreases n {
    if n <= 0 { mem } else { fill_segment_spec(c, fill_lanes(c, mem, pass, slice, n - 1), pass, n - 1, slice) }
}
pub open spec fn fill_slices(c: Cfg, mem: Seq<Seq<u64>>, pass: int, n: int) -> Seq<Seq<u64>> decreases n {
    if n <= 0 { mem } else { fill_lanes(c, fill_slices(c, mem, pass, n - 1), pass, n - 1, c.p) }
}
pub open spec fn fill_passes(c: Cfg, mem: Seq<Seq<u64>>, n: int) -> Seq<Seq<u64>> decreases n {
    if n <= 0 { mem } else { fill_slices(c, fill_passes(c, mem, n - 1), n - 1, 4) }
}
/// 3.2 step 7: C = B[0][q-1] xor ... xor B[n-1][q-1]
pub open spec fn final_xor(c: Cfg, mem: Seq<Seq<u64>>, n: int) -> Seq<u64> decreases n {
    let q = lane_len(c);
    if n <= 1 { mem[q - 1] } else { xor_blk(final_xor(c, mem, n - 1), mem[(n - 1) * q + q - 1]) }
}
pub open spec fn zero_mem(c: Cfg) -> Seq<Seq<u64>> { Seq::new((c.p * lane_len(c)) as nat, |i: int| zero_blk()) }
/// 3.2 step 8: the tag is H'^T(C)
pub open spec fn argon2_from_h0(c: Cfg, h0: Seq<u8>, taglen: int) -> Seq<u8> {
    hprime_spec(taglen, bytes_of_blk(final_xor(c, fill_passes(c, init_lanes(c, h0, zero_mem(c), c.p), c.t), c.p)))
}
pub open spec fn argon2_spec(c: Cfg, taglen: int, pwd: Seq<u8>, salt: Seq<u8>, key: Seq<u8>, aad: Seq<u8>) -> Seq<u8> {
    argon2_from_h0(c, h0_spec(c, taglen, pwd, salt, key, aad), taglen)
}
