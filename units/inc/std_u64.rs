// ---- assumed specs of std functions (ASSUMED: listed in evidence.trusted_base) ----
pub assume_specification [u64::wrapping_neg] (x: u64) -> (r: u64)
    ensures r == sub(0u64, x);
pub assume_specification [u32::wrapping_neg] (x: u32) -> (r: u32)
    ensures r == sub(0u32, x);
pub proof fn lemma_wrapping_sub_is_sub(a: u64, b: u64)
    ensures vstd::wrapping::u64_specs::wrapping_sub(a, b) == sub(a, b)
{
    assert(sub(a, b) == (if a >= b { (a - b) as u64 } else { (a + 0x1_0000_0000_0000_0000 - b) as u64 })) by (bit_vector);
}
