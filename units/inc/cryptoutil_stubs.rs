// ---- contract-only stubs for cryptoutil one-liners (bodies use <&[u8;4]>::try_from / to_le_bytes, rule X10);
// each contract is the assertion text of a full-domain Kani harness in kani/cryptoutil.rs (discharged_by)
#[verifier::external_body]
pub fn read_u32_le(input: &[u8]) -> (r: u32)
    requires input.len() == 4
    ensures r == le32(input@)
{ unimplemented!() }
#[verifier::external_body]
pub fn write_u32_le(dst: &mut [u8], input: u32)
    requires old(dst).len() == 4
    ensures final(dst)@ == le4(input as int)
{ unimplemented!() }
#[verifier::external_body]
pub fn write_u32_be(dst: &mut [u8], input: u32)
    requires old(dst).len() == 4
    ensures final(dst)@ == be4(input as int)
{ unimplemented!() }
#[verifier::external_body]
pub fn write_u64_le(dst: &mut [u8], input: u64)
    requires old(dst).len() == 8
    ensures final(dst)@ == le4(input as int % 0x1_0000_0000) + le4((input as int / 0x1_0000_0000) % 0x1_0000_0000)
{ unimplemented!() }
