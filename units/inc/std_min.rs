pub assume_specification<T: core::cmp::Ord + core::marker::Destruct> [core::cmp::min::<T>] (a: T, b: T) -> (r: T)
    ensures (a.cmp_spec(&b) == core::cmp::Ordering::Greater ==> r == b), (a.cmp_spec(&b) != core::cmp::Ordering::Greater ==> r == a);
