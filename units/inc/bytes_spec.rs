// ---- byte/word conversion specs shared by units
pub open spec fn le32(b: Seq<u8>) -> u32 { (b[0] as int + b[1] as int * 0x100 + b[2] as int * 0x10000 + b[3] as int * 0x1000000) as u32 }
pub open spec fn le4(x: int) -> Seq<u8> { seq![(x % 256) as u8, ((x / 256) % 256) as u8, ((x / 65536) % 256) as u8, ((x / 16777216) % 256) as u8] }
pub open spec fn be4(x: int) -> Seq<u8> { seq![((x / 16777216) % 256) as u8, ((x / 65536) % 256) as u8, ((x / 256) % 256) as u8, (x % 256) as u8] }
