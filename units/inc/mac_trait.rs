// ---- trait-level contract of `Mac` (C08, C09): every implementation is an object against an abstract view.
// The view of a lossy accumulator is its *residual function*: cont(s) = "the result if s is still fed".
//   input(d)   |- cont'(s) == cont(d ++ s)
//   reset      |- cont'   == fresh            ("behaves exactly like a freshly constructed one with the same key")
//   raw_result |- out == cont(empty), whatever the object was asked before; done'
//   input / result require the state in which the implementation does not fail loudly (rr_pre / !done)
pub trait Mac {
    spec fn mwf(&self) -> bool;
    spec fn done(&self) -> bool;
    spec fn osz(&self) -> nat;
    spec fn cont(&self, s: Seq<u8>) -> Seq<u8>;
    spec fn fresh(&self, s: Seq<u8>) -> Seq<u8>;
    /// precondition of asking for a result with an output buffer of this length (implementations that panic on a
    /// repeated request state `!done` here; those that answer again state nothing)
    spec fn rr_pre(&self, outlen: nat) -> bool;
//% fn mac / Mac / input
//%% sig
        requires old(self).mwf(), !old(self).done()
        ensures final(self).mwf(), !final(self).done(), final(self).osz() == old(self).osz(),
                forall|s: Seq<u8>| #[trigger] final(self).cont(s) == old(self).cont(data@ + s),
                forall|s: Seq<u8>| #[trigger] final(self).fresh(s) == old(self).fresh(s),
                forall|n: nat| #[trigger] final(self).rr_pre(n) == old(self).rr_pre(n)
//% end
//% fn mac / Mac / reset
//%% sig
        requires old(self).mwf()
        ensures final(self).mwf(), !final(self).done(), final(self).osz() == old(self).osz(),
                forall|s: Seq<u8>| #[trigger] final(self).cont(s) == old(self).fresh(s),
                forall|s: Seq<u8>| #[trigger] final(self).fresh(s) == old(self).fresh(s)
//% end
//% fn mac / Mac / result
//%% sig
        requires old(self).mwf(), old(self).rr_pre(old(self).osz())
        ensures final(self).mwf(), final(self).done(), final(self).osz() == old(self).osz(),
                r.code@ == old(self).cont(Seq::<u8>::empty()),
                forall|n: nat| #[trigger] final(self).rr_pre(n) ==> final(self).cont(Seq::<u8>::empty()) == old(self).cont(Seq::<u8>::empty()),
                forall|s: Seq<u8>| #[trigger] final(self).fresh(s) == old(self).fresh(s)
//% end
//% fn mac / Mac / raw_result
//%% sig
        requires old(self).mwf(), old(self).rr_pre(old(output).len() as nat)
        ensures final(self).mwf(), final(self).done(), final(self).osz() == old(self).osz(),
                final(output).len() == old(output).len(),
                final(output)@.subrange(0, old(self).osz() as int) == old(self).cont(Seq::<u8>::empty()),
                forall|n: nat| #[trigger] final(self).rr_pre(n) ==> final(self).cont(Seq::<u8>::empty()) == old(self).cont(Seq::<u8>::empty()),
                forall|s: Seq<u8>| #[trigger] final(self).fresh(s) == old(self).fresh(s)
//% end
//% fn mac / Mac / output_bytes
//%% sig
        requires self.mwf()
        ensures r == self.osz()
//% end
}
//% item mac / MacResult
impl MacResult {
    #[verifier::external_body]
    pub fn new(code: &[u8]) -> (r: MacResult)
        ensures r.code@ == code@
    { unimplemented!() }
}
