// ---- rule X10 wrappers: uN::{to,from}_{le,be}_bytes routed through same-signature stubs (ASSUMED std semantics)
pub open spec fn be4v(b0: u8, b1: u8, b2: u8, b3: u8) -> int { b3 as int + 0x100 * (b2 as int) + 0x10000 * (b1 as int) + 0x1000000 * (b0 as int) }
pub open spec fn be8(b0: u8, b1: u8, b2: u8, b3: u8, b4: u8, b5: u8, b6: u8, b7: u8) -> int { be4v(b4, b5, b6, b7) + 0x1_0000_0000 * be4v(b0, b1, b2, b3) }
#[verifier::external_body]
pub fn __verif_u64_from_be_bytes(b: [u8; 8]) -> (r: u64)
    ensures r as int == be8(b@[0], b@[1], b@[2], b@[3], b@[4], b@[5], b@[6], b@[7])
{ u64::from_be_bytes(b) }
#[verifier::external_body]
pub fn __verif_u32_from_be_bytes(b: [u8; 4]) -> (r: u32)
    ensures r as int == be4v(b@[0], b@[1], b@[2], b@[3])
{ u32::from_be_bytes(b) }
